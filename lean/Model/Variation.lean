import Model.Stack
import Model.Ops
import Model.Reduce
import Model.Generated.Consts
/-!
# Random generation, mutation and crossover of `AGraph` command stacks (executable model)

Port of `agraph/generator.py`, `agraph/component_generator.py`, `agraph/mutation.py`,
`agraph/crossover.py` and `util/probability_mass_function.py::draw_sample`.

Every function is a pure function of (configuration, parent stack(s), list of random draws).
The draws are consumed left to right, one entry per call of the random number generator at the level
at which bingo calls it:

* `ProbabilityMassFunction.draw_sample`  -> the *index* of the chosen item in `self.items`
  (`np.searchsorted(cumulative_weights, np.random.random())`, hence in `0 .. len(items)`),
* `np.random.randint(h)`, `np.random.randint(l, h)`, `random.randint(a, b)`, `random.randrange(l, h)`
  -> the returned value,
* `np.random.choice(inds)` -> the *position* of the chosen element in `inds`.

A draw request states the half-open range it expects: a draw outside of it is `badDraw`, an exhausted
list is `outOfDraws` (this is how a non-terminating rejection loop of the Python code shows up), and a
request with an empty range is the `ValueError` numpy / `random` raise (no draw is consumed).
The weights of the PMFs only influence *which* index is drawn, so they are not part of the model.
-/
namespace Bingo
namespace Var
open Gen.OpDefs

/-- `ComponentGenerator(input_x_dimension = D, num_initial_load_statements = nLoad)` with the operators
`ops` added in this order (`_operator_pmf.items`) -/
structure Config where
  D : Nat
  nLoad : Nat
  ops : List Int
  deriving Repr

/-- the Python exception classes that can escape -/
inductive PyErr where
  | indexError | valueError | keyError | runtimeError | typeError
  deriving Repr, DecidableEq

def PyErr.name : PyErr → String
  | .indexError => "IndexError"
  | .valueError => "ValueError"
  | .keyError => "KeyError"
  | .runtimeError => "RuntimeError"
  | .typeError => "TypeError"

inductive Res (α : Type) where
  | ok (a : α)
  | badDraw
  | outOfDraws
  | pyError (k : PyErr)
  deriving Repr

/-- computations consuming the draw list -/
def M (α : Type) : Type := List Nat → Res (α × List Nat)

namespace M
def run {α : Type} (m : M α) (ds : List Nat) : Res (α × List Nat) := m ds
def ret {α : Type} (a : α) : M α := fun ds => .ok (a, ds)
def andThen {α β : Type} (m : M α) (f : α → M β) : M β := fun ds =>
  match m ds with
  | .ok (a, ds') => f a ds'
  | .badDraw => .badDraw
  | .outOfDraws => .outOfDraws
  | .pyError k => .pyError k
instance : Monad M where
  pure := ret
  bind := andThen
/-- `raise <k>` -/
def raise {α : Type} (k : PyErr) : M α := fun _ => .pyError k
/-- a loop that is still asking for draws when the fuel (= number of remaining draws + 1) is gone -/
def starve {α : Type} : M α := fun _ => .outOfDraws
/-- number of draws not yet consumed (fuel for the rejection loops: every iteration of such a loop
either consumes a draw or repeats itself identically for ever) -/
def remaining : M Nat := fun ds => .ok (ds.length, ds)
def ofOption {α : Type} (k : PyErr) : Option α → M α
  | some a => ret a
  | none => raise k
end M

/-! ## the draw primitives -/

/-- `np.random.randint(lo, hi)` / `random.randrange(lo, hi)` (value logged): `ValueError` on an empty range -/
def drawRange (lo hi : Nat) : M Nat := fun ds =>
  if hi ≤ lo then .pyError .valueError else
  match ds with
  | [] => .outOfDraws
  | d :: rest => if lo ≤ d ∧ d < hi then .ok (d, rest) else .badDraw

/-- `np.random.randint(h)` -/
def drawBelow (h : Nat) : M Nat := drawRange 0 h

/-- `ProbabilityMassFunction.draw_sample` on `n` items (index logged): `np.searchsorted` answers
`0 .. n`; the answer `n` (always for `n = 0`, a rounding accident otherwise) is the `IndexError` of
`self.items[index]` -/
def drawPmf (n : Nat) : M Nat := fun ds =>
  match ds with
  | [] => .outOfDraws
  | d :: rest =>
    if d < n then .ok (d, rest) else if d = n then .pyError .indexError else .badDraw

/-! ## table lookups (`KeyError` on an unknown node) -/

/-- `IS_TERMINAL_MAP[node]` -/
def isTerminalM (node : Int) : M Bool := M.ofOption .keyError (Ops.isTerminal node)
/-- `IS_ARITY_2_MAP[node]` -/
def isArity2M (node : Int) : M Bool := M.ofOption .keyError (Ops.isArity2 node)

/-! ## list helpers -/

/-- `[i for i, x in enumerate(l) if p(i, x)]` -/
def indicesWhere {α : Type} (p : Nat → α → Bool) : Nat → List α → List Nat
  | _, [] => []
  | i, x :: xs => if p i x then i :: indicesWhere p (i+1) xs else indicesWhere p (i+1) xs

/-- `l.index(x)` -/
def findPos (x : Nat) : List Nat → Option Nat
  | [] => none
  | y :: ys => if y = x then some 0 else (findPos x ys).map (· + 1)

/-- `stack[i] = cmd` on a numpy array (`IndexError` when out of range; `i` is never negative here) -/
def setRow (s : Stack) (i : Nat) (c : Cmd) : M Stack :=
  if i < s.length then pure (s.set i c) else M.raise .indexError

/-- `stack[i]` -/
def getRow (s : Stack) (i : Nat) : M Cmd := M.ofOption .indexError s[i]?

/-! ## `get_utilized_commands` (modelled in `Model/Reduce.lean`) with the exception class -/

/-- which exception `get_utilized_commands` raised (only evaluated when `Reduce.utilized` is `none`) -/
def utilErrLoop (s : Stack) : Nat → List Bool → PyErr
  | 0, _ => .indexError
  | k+1, util =>
    match Reduce.utilStep s util (k+1) with
    | some u => utilErrLoop s k u
    | none =>
      match s[k+1]? with
      | none => .indexError
      | some cmd =>
        match Ops.isTerminal cmd.node with
        | none => .keyError
        | some _ =>
          match pyIdx util.length cmd.p1 with
          | none => .indexError
          | some _ =>
            match Ops.isArity2 cmd.node with
            | none => .keyError
            | some _ => .indexError

/-- `AGraph.get_utilized_commands()` -/
def utilizedM (s : Stack) : M (List Bool) :=
  match Reduce.utilized s with
  | some u => pure u
  | none =>
    match s.length with
    | 0 => M.raise .indexError
    | n+1 => M.raise (utilErrLoop s n (List.replicate n false ++ [true]))

/-! ## `component_generator.py` -/

/-- `ComponentGenerator._terminal_pmf.items` -/
def terminalItems : List Int := [CONSTANT, VARIABLE]

/-- `ComponentGenerator.get_number_of_terminals` -/
def numberOfTerminals (_cfg : Config) : Nat := terminalItems.length
/-- `ComponentGenerator.get_number_of_operators` -/
def numberOfOperators (cfg : Config) : Nat := cfg.ops.length

/-- `ComponentGenerator.random_terminal` -/
def randomTerminal (_cfg : Config) : M Int := do
  let i ← drawPmf terminalItems.length
  M.ofOption .indexError terminalItems[i]?

/-- `ComponentGenerator.random_terminal_parameter` -/
def randomTerminalParameter (cfg : Config) (terminal : Int) : M Int :=
  if terminal = VARIABLE then do
    let v ← drawBelow cfg.D
    pure (Int.ofNat v)
  else pure (-1)

/-- `ComponentGenerator.random_terminal_command` -/
def randomTerminalCommand (cfg : Config) : M Cmd := do
  let terminal ← randomTerminal cfg
  let param ← randomTerminalParameter cfg terminal
  pure ⟨terminal, param, param⟩

/-- `ComponentGenerator.random_operator` -/
def randomOperator (cfg : Config) : M Int := do
  let i ← drawPmf cfg.ops.length
  M.ofOption .indexError cfg.ops[i]?

/-- `ComponentGenerator.random_operator_parameter` -/
def randomOperatorParameter (stackLocation : Nat) : M Int := do
  let v ← drawBelow stackLocation
  pure (Int.ofNat v)

/-- `ComponentGenerator.random_operator_command` -/
def randomOperatorCommand (cfg : Config) (stackLocation : Nat) : M Cmd := do
  let op ← randomOperator cfg
  let p1 ← randomOperatorParameter stackLocation
  let p2 ← randomOperatorParameter stackLocation
  pure ⟨op, p1, p2⟩

/-- `ComponentGenerator.random_command` (`_random_command_function_pmf.items` = [terminal, operator]) -/
def randomCommand (cfg : Config) (stackLocation : Nat) : M Cmd :=
  if stackLocation < cfg.nLoad then randomTerminalCommand cfg
  else do
    let i ← drawPmf 2
    if i = 0 then randomTerminalCommand cfg else randomOperatorCommand cfg stackLocation

/-! ## `generator.py` -/

/-- the loop of `AGraphGenerator._create_command_array`: rows `i, i+1, …` (`k` of them) -/
def generateFrom (cfg : Config) : Nat → Nat → M Stack
  | 0, _ => pure []
  | k+1, i => do
    let c ← randomCommand cfg i
    let rest ← generateFrom cfg k (i+1)
    pure (c :: rest)

/-- `AGraphGenerator._create_command_array` with `agraph_size = size` -/
def generate (cfg : Config) (size : Nat) : M Stack := generateFrom cfg size 0

/-! ## `mutation.py`: command mutation -/

/-- `AGraphMutation._get_random_command_mutation_location` -/
def randomCommandMutationLocation (s : Stack) : M Nat := do
  let util ← utilizedM s
  let indices := indicesWhere (fun _ x => x) 0 util
  let index ← drawBelow indices.length
  M.ofOption .indexError indices[index]?

/-- the rejection loop of `AGraphMutation._mutate_command` -/
def mutateCommandLoop (cfg : Config) (loc : Nat) (old : Cmd) : Nat → M Cmd
  | 0 => M.starve
  | fuel+1 => do
    let new ← randomCommand cfg loc
    if new = old ∨ (old.node = CONSTANT ∧ new.node = CONSTANT) then mutateCommandLoop cfg loc old fuel
    else pure new

/-- `AGraphMutation._mutate_command` -/
def mutateCommand (cfg : Config) (s : Stack) : M Stack := do
  let loc ← randomCommandMutationLocation s
  let old ← getRow s loc
  let fuel ← M.remaining
  let new ← mutateCommandLoop cfg loc old (fuel+1)
  setRow s loc new

/-! ## node mutation -/

/-- `AGraphMutation._get_random_node_mutation_location` -/
def randomNodeMutationLocation (cfg : Config) (s : Stack) : M Nat := do
  let util ← utilizedM s
  let terminalsOk := decide (numberOfTerminals cfg > 1)
  let operatorsOk := decide (numberOfOperators cfg > 1)
  -- `IS_TERMINAL_MAP[node]` is only looked up on utilized rows, whose nodes `utilizedM` already looked up
  let indices := indicesWhere (fun i x =>
      x && (match s[i]? with
            | some c => (match Ops.isTerminal c.node with
                         | some true => terminalsOk
                         | some false => operatorsOk
                         | none => false)
            | none => false)) 0 util
  let index ← drawBelow indices.length
  M.ofOption .indexError indices[index]?

/-- `AGraphMutation._randomize_node` -/
def randomizeNode (cfg : Config) (c : Cmd) : M Cmd := do
  if (← isTerminalM c.node) then
    let t ← randomTerminal cfg
    let p ← randomTerminalParameter cfg t
    pure ⟨t, p, p⟩
  else
    let op ← randomOperator cfg
    pure ⟨op, c.p1, c.p2⟩

/-- the rejection loop of `AGraphMutation._mutate_node` -/
def mutateNodeLoop (cfg : Config) (old : Cmd) : Nat → Cmd → M Cmd
  | 0, _ => M.starve
  | fuel+1, cur => do
    let new ← randomizeNode cfg cur
    if old.node = new.node then mutateNodeLoop cfg old fuel new else pure new

/-- `AGraphMutation._mutate_node` -/
def mutateNode (cfg : Config) (s : Stack) : M Stack := do
  let loc ← randomNodeMutationLocation cfg s
  let old ← getRow s loc
  let fuel ← M.remaining
  let new ← mutateNodeLoop cfg old (fuel+1) old
  setRow s loc new

/-! ## parameter mutation -/

/-- `AGraphMutation._get_random_param_mut_location` (`none` = Python's `None`) -/
def randomParamMutLocation (cfg : Config) (s : Stack) : M (Option Nat) := do
  let util ← utilizedM s
  let noParamMut : List Int := [CONSTANT, INTEGER] ++ (if cfg.D ≤ 1 then [VARIABLE] else [])
  let indices := indicesWhere (fun i x =>
      x && (match s[i]? with
            | some c => !noParamMut.contains c.node
            | none => false)) 0 util
  let indices ←
    if indices.contains 1 then do
      let c ← getRow s 1
      if (← isTerminalM c.node) then pure indices else pure (indices.erase 1)
    else pure indices
  if indices.isEmpty then pure none
  else do
    let index ← drawBelow indices.length
    let loc ← M.ofOption .indexError indices[index]?
    pure (some loc)

/-- `AGraphMutation._randomize_parameters` -/
def randomizeParameters (cfg : Config) (c : Cmd) (loc : Nat) : M Cmd := do
  if (← isTerminalM c.node) then
    let p ← randomTerminalParameter cfg c.node
    pure ⟨c.node, p, p⟩
  else
    let p1 ← randomOperatorParameter loc
    if (← isArity2M c.node) then
      let p2 ← randomOperatorParameter loc
      pure ⟨c.node, p1, p2⟩
    else pure ⟨c.node, p1, c.p2⟩

/-- the rejection loop of `AGraphMutation._mutate_parameters` -/
def mutateParametersLoop (cfg : Config) (loc : Nat) (old : Cmd) : Nat → Cmd → M Cmd
  | 0, _ => M.starve
  | fuel+1, cur => do
    let new ← randomizeParameters cfg cur loc
    if old = new then mutateParametersLoop cfg loc old fuel new else pure new

/-- `AGraphMutation._mutate_parameters` -/
def mutateParameters (cfg : Config) (s : Stack) : M Stack := do
  match (← randomParamMutLocation cfg s) with
  | none => pure s
  | some loc =>
    let old ← getRow s loc
    let fuel ← M.remaining
    let new ← mutateParametersLoop cfg loc old (fuel+1) old
    setRow s loc new

/-! ## pruning -/

/-- `AGraphMutation._get_random_prune_location` (`none` = Python's `None`) -/
def randomPruneLocation (s : Stack) : M (Option Nat) := do
  let util ← utilizedM s
  -- `utilized_commands[:-1]`; nodes of utilized rows were already looked up by `utilizedM`
  let indices := indicesWhere (fun i x =>
      x && (match s[i]? with
            | some c => Ops.isTerminal c.node == some false
            | none => false)) 0 util.dropLast
  if indices.isEmpty then pure none
  else do
    let index ← drawBelow indices.length
    let loc ← M.ofOption .indexError indices[index]?
    pure (some loc)

/-- the `for` loop of `AGraphMutation._prune_branch` over `command_array[mutation_location:]`;
`i` is the absolute row number of the head of the list -/
def pruneRows (loc : Nat) (pruned : Int) : Nat → List Cmd → M (List Cmd)
  | _, [] => pure []
  | i, c :: rest => do
    let t ← isTerminalM c.node
    let c' : Cmd :=
      if t then c
      else ⟨c.node, if c.p1 = Int.ofNat loc then pruned else c.p1,
                    if c.p2 = Int.ofNat loc then pruned else c.p2⟩
    let rest' ← pruneRows loc pruned (i+1) rest
    pure (c' :: rest')

/-- `AGraphMutation._prune_branch` -/
def pruneBranch (_cfg : Config) (s : Stack) : M Stack := do
  match (← randomPruneLocation s) with
  | none => pure s
  | some loc =>
    let cmd ← getRow s loc
    let prunedParamNum ← (do if (← isArity2M cmd.node) then drawBelow 2 else pure 0)
    let prunedParam := if prunedParamNum = 0 then cmd.p1 else cmd.p2
    let tail ← pruneRows loc prunedParam loc (s.drop loc)
    pure (s.take loc ++ tail)

/-! ## fork mutation -/

/-- what `_move_utilized_commands` returns; `indexValues[old] = new` is the sorted `index_shifts` -/
structure Moved where
  stack : Stack
  util : List Bool
  indexValues : List Nat
  mutatedCommandLocation : Nat
  startI : Nat
  endI : Nat
  deriving Repr

/-- `AGraphMutation._move_utilized_commands` -/
def moveUtilizedCommands (s : Stack) (util : List Bool) (loc : Nat) : M Moved := do
  let n := s.length
  let tuples := (s.zip util).zip (List.range n)       -- ((row, utilized), old index)
  let before := tuples.filter (fun t => t.1.2 && decide (t.2 ≤ loc))
  let unutilized := tuples.filter (fun t => !t.1.2)
  let after := tuples.filter (fun t => t.1.2 && !decide (t.2 ≤ loc))
  let final := before ++ unutilized ++ after
  if final.isEmpty then M.raise .valueError            -- `zip(*[])` cannot be unpacked
  else do
    let newIndices := final.map (·.2)
    -- `index_shifts[mutation_location]`: `KeyError` when the location is not a row
    let mcl ← M.ofOption .keyError (findPos loc newIndices)
    let endI := before.length + unutilized.length - 1
    let indexValues := (List.range n).map fun old =>
      if old = loc then endI else (findPos old newIndices).getD 0
    pure { stack := final.map (·.1.1), util := final.map (·.1.2), indexValues := indexValues,
           mutatedCommandLocation := mcl, startI := before.length, endI := endI }

/-- `index_values[p]` (numpy integer indexing: negative wraps, `IndexError` out of range) -/
def remapParam (iv : List Nat) (p : Int) : M Int := do
  let j ← M.ofOption .indexError (pyIdx iv.length p)
  let v ← M.ofOption .indexError iv[j]?
  pure (Int.ofNat v)

/-- `stack[utilized_operators, i] = index_values[stack[utilized_operators, i]]` for `i = 1, 2` -/
def remapRows (iv : List Nat) : List Cmd → List Bool → M (List Cmd)
  | c :: cs, u :: us => do
    let t ← M.ofOption .typeError (Ops.isTerminal c.node)   -- `IS_TERMINAL_MAP.get` gives `None`
    let c' ← (if !t && u then do
                let p1 ← remapParam iv c.p1
                let p2 ← remapParam iv c.p2
                pure (⟨c.node, p1, p2⟩ : Cmd)
              else pure c)
    let rest ← remapRows iv cs us
    pure (c' :: rest)
  | cs, _ => pure cs

/-- one pass `for i in range(1, 3)` of the second loop of `_fix_indices` (`first` = column 1).
`np.vectorize(f)(xs)` calls `f(xs[0])` once more than needed to find the output type: that draw is
consumed and discarded. -/
def fixColumn (first : Bool) (s : Stack) : M Stack := do
  let toFix := indicesWhere (fun i (c : Cmd) =>
      Ops.isTerminal c.node == some false &&
        decide ((if first then c.p1 else c.p2) ≥ Int.ofNat i)) 0 s
  match toFix with
  | [] => pure s
  | i0 :: _ =>
    let _ ← randomOperatorParameter i0
    toFix.foldlM (fun st i => do
      let v ← randomOperatorParameter i
      let c ← getRow st i
      setRow st i (if first then ⟨c.node, v, c.p2⟩ else ⟨c.node, c.p1, v⟩)) s

/-- `AGraphMutation._fix_indices` -/
def fixIndices (s : Stack) (util : List Bool) (indexValues : List Nat) : M Stack := do
  let s1 ← remapRows indexValues s util
  let s2 ← fixColumn true s1
  fixColumn false s2

/-- the loop of `AGraphMutation._get_arity_operator`: at most `attempts` more draws;
`none` = `RuntimeError` -/
def getArityOperatorLoop (cfg : Config) (arity2 : Bool) : Nat → M (Option Int)
  | 0 => pure none
  | attempts+1 => do
    let op ← randomOperator cfg
    if (← isArity2M op) = arity2 then pure (some op) else getArityOperatorLoop cfg arity2 attempts

/-- `AGraphMutation._get_arity_operator(arity)` (any `arity ≠ 1` means 2, as in Python) -/
def getArityOperator (cfg : Config) (arity : Nat) : M Int := do
  match (← getArityOperatorLoop cfg (arity != 1) 100) with
  | some op => pure op
  | none => M.raise .runtimeError

/-- the `try` branch of `_insert_fork` after `_get_arity_operator(2)` succeeded: rows `i, i+1, …` -/
def insertForkNormal (cfg : Config) (arity2Op : Int) (forkSize mcl startI endI nTerminals : Nat) :
    Nat → Nat → Stack → M Stack
  | 0, _, s => pure s
  | k+1, i, s => do
    let s' ←
      if i < startI + nTerminals then do
        let c ← randomTerminalCommand cfg
        setRow s i c
      else if i = startI + forkSize - 1 then do
        let r ← drawRange startI i
        setRow s endI ⟨arity2Op, Int.ofNat mcl, Int.ofNat r⟩
      else do
        let op ← randomOperator cfg
        let r1 ← drawRange startI i
        let r2 ← drawRange startI i
        setRow s i ⟨op, Int.ofNat r1, Int.ofNat r2⟩
    insertForkNormal cfg arity2Op forkSize mcl startI endI nTerminals k (i+1) s'

/-- the `except RuntimeError` branch of `_insert_fork` (only arity-1 operators could be drawn) -/
def insertForkArity1 (cfg : Config) (forkSize mcl startI endI : Nat) : Nat → Nat → Stack → M Stack
  | 0, _, s => pure s
  | k+1, i, s => do
    let op ← randomOperator cfg
    let s' ←
      if i = startI then setRow s i ⟨op, Int.ofNat mcl, Int.ofNat mcl⟩
      else if i = startI + forkSize - 1 then setRow s endI ⟨op, Int.ofNat i - 1, Int.ofNat i - 1⟩
      else setRow s i ⟨op, Int.ofNat i - 1, Int.ofNat i - 1⟩
    insertForkArity1 cfg forkSize mcl startI endI k (i+1) s'

/-- `AGraphMutation._insert_fork` -/
def insertFork (cfg : Config) (s : Stack) (forkSize mcl startI endI : Nat) : M Stack := do
  match (← getArityOperatorLoop cfg true 100) with
  | some arity2Op =>
    let nTerminals ← drawRange 1 (forkSize / 2 + 1)     -- `random.randint(1, fork_size // 2)`
    insertForkNormal cfg arity2Op forkSize mcl startI endI nTerminals forkSize startI s
  | none => insertForkArity1 cfg forkSize mcl startI endI forkSize startI s

/-- `AGraphMutation._fork_mutation` -/
def forkMutation (cfg : Config) (s : Stack) : M Stack := do
  let util ← utilizedM s
  let nUnutilized := util.count false
  if nUnutilized < 2 then pure s
  else do
    let maxFork := min nUnutilized Gen.Consts.MAX_FORK_SIZE
    let forkSize ← drawRange 2 (maxFork + 1)
    let inds := indicesWhere (fun _ x => x) 0 util
    let pos ← drawRange 0 inds.length                   -- `np.random.choice(inds)`, position logged
    let loc ← M.ofOption .indexError inds[pos]?
    let mv ← moveUtilizedCommands s util loc
    let fixed ← fixIndices mv.stack mv.util mv.indexValues
    insertFork cfg fixed forkSize mv.mutatedCommandLocation mv.startI mv.endI

/-! ## `AGraphMutation.__call__` -/

/-- the `kind`-th item of `AGraphMutation._mutation_function_pmf.items` applied to a copy of the parent -/
def mutateKind (cfg : Config) (kind : Nat) (s : Stack) : M Stack :=
  match kind with
  | 0 => mutateCommand cfg s
  | 1 => mutateNode cfg s
  | 2 => mutateParameters cfg s
  | 3 => pruneBranch cfg s
  | 4 => forkMutation cfg s
  | _ => M.raise .indexError

/-- `AGraphMutation.__call__` -/
def mutate (cfg : Config) (s : Stack) : M Stack := do
  let kind ← drawPmf 5
  mutateKind cfg kind s

/-! ## `crossover.py` -/

/-- `AGraphCrossover.__call__`: numpy raises `ValueError` for `randint(1, ag_size - 1)` on sizes ≤ 2
and (after the draw) for the slice assignments between parents of different length -/
def crossover (p1 p2 : Stack) : M (Stack × Stack) := do
  let agSize := p1.length
  let crossPoint ← drawRange 1 (agSize - 1)
  if p2.length ≠ agSize then M.raise .valueError
  else pure (p1.take crossPoint ++ p2.drop crossPoint, p2.take crossPoint ++ p1.drop crossPoint)

end Var
end Bingo
