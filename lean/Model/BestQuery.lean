import Model.Pipeline
import Model.BestScan
/-!
# `Island.get_best_individual` on the object level (flags, stored fitness, generational age)

```
if self.generational_age == 0:
    self.evaluate_population()
else:
    self._evaluate_population_if_needed()     # evaluates iff some member is not marked evaluated
best = self.population[0]
for indv in self.population: ...
```
(the text is pinned by `C15.gen_fpi_shapes`).  The scan reads `indv.fitness`; a member whose stored fitness is Python's
`None` makes the comparison raise (`TypeError`), which is `none` here.
-/
namespace Bingo
namespace BestQuery
open Pipeline BestScan

/-- `Island._evaluate_population_if_needed` -/
def evalIfNeeded (f : Nat → Key) (cost : Nat → Nat) (redundant : Bool) (pop : List Indiv) : List Indiv :=
  if pop.all (·.flag) then pop else (serialEval f cost redundant pop).1

/-- the population after the evaluation step of `get_best_individual` -/
def prepare (f : Nat → Key) (cost : Nat → Nat) (redundant : Bool) (age : Nat) (pop : List Indiv) : List Indiv :=
  if age = 0 then (serialEval f cost redundant pop).1 else evalIfNeeded f cost redundant pop

/-- the keys the scan compares; `none` = some member has no fitness (`None < None` raises) -/
def keyed : List Indiv → Option (List (Key × Indiv))
  | [] => some []
  | i :: rest => do
    let k ← i.fit
    let r ← keyed rest
    pure ((k, i) :: r)

/-- `Island.get_best_individual`: the reported individual and the population the island holds afterwards -/
def islandBest (f : Nat → Key) (cost : Nat → Nat) (redundant : Bool) (age : Nat) (pop : List Indiv) :
    Option Indiv × List Indiv :=
  let pop' := prepare f cost redundant age pop
  (((keyed pop').bind islandScan).map (·.2), pop')

end BestQuery
end Bingo
