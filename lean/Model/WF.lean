import Model.Stack
import Model.Ops
/-!
# Well-formedness of command stacks (decidable)

* `WFGenome D ops s` -- what generation / mutation / crossover must produce.
* `WFEval D L s` -- what the evaluation backend is given after `AGraph._update` renumbered the
  constants: additionally every CONSTANT row has `0 ≤ p1 < L`.
Operator rows must have *both* parameters below their own index (also arity-1 nodes: the fork
mutation remaps both columns and `reduce_stack` copies `p1` into `p2`).
-/
namespace Bingo
namespace WF
open Gen.OpDefs

def rowOK (D : Nat) (L : Option Nat) (ops : Option (List Int)) (i : Nat) (cmd : Cmd) : Bool :=
  match Ops.isTerminal cmd.node, Ops.isArity2 cmd.node with
  | some true, some false =>
    if cmd.node = VARIABLE then decide (0 ≤ cmd.p1) && decide (cmd.p1 < D)
    else if cmd.node = CONSTANT then
      match L with
      | none => true
      | some l => decide (0 ≤ cmd.p1) && decide (cmd.p1 < l)
    else cmd.node = INTEGER
  | some false, some _ =>
    decide (0 ≤ cmd.p1) && decide (cmd.p1 < i) && decide (0 ≤ cmd.p2) && decide (cmd.p2 < i) &&
      (match ops with
       | none => true
       | some l => l.contains cmd.node)
  | _, _ => false

def rowsOK (D : Nat) (L : Option Nat) (ops : Option (List Int)) : Nat → List Cmd → Bool
  | _, [] => true
  | i, cmd :: rest => rowOK D L ops i cmd && rowsOK D L ops (i+1) rest

def wf (D : Nat) (L : Option Nat) (ops : Option (List Int)) (s : Stack) : Bool :=
  !s.isEmpty && rowsOK D L ops 0 s

/-- output of generator / mutation / crossover for input dimension `D` and enabled operators `ops` -/
def WFGenome (D : Nat) (ops : List Int) (s : Stack) : Prop := wf D none (some ops) s = true
/-- input of the evaluation backend: `D` data columns, `L` constants -/
def WFEval (D L : Nat) (s : Stack) : Prop := wf D (some L) none s = true

instance (D ops s) : Decidable (WFGenome D ops s) := by unfold WFGenome; infer_instance
instance (D L s) : Decidable (WFEval D L s) := by unfold WFEval; infer_instance

end WF

end Bingo
