import Model.Pipeline
import Model.Generated.Consts
/-!
# Serial archipelago migration (`serial_archipelago.py`, `island.py::dump_fraction_of_population`)

Shuffles are oracle permutations given as index lists (`perm[k]` = old position of the element
now at position `k`); `none` = the oracle is not a permutation of the right length.
-/
namespace Bingo
namespace Migration
open Pipeline

/-- Python `int(round(n * num / den))` for the half fraction: round-half-to-even -/
def pyRoundFrac (num den n : Nat) : Nat :=
  let q := (n * num) / den
  let r := (n * num) % den
  if 2 * r < den then q
  else if 2 * r > den then q + 1
  else if q % 2 = 0 then q else q + 1

def isPerm (p : List Nat) (n : Nat) : Bool :=
  p.length = n && (List.range n).all fun i => p.contains i

def applyPerm {β : Type} (p : List Nat) (l : List β) : Option (List β) :=
  if isPerm p l.length then p.mapM (l[·]?) else none

/-- `Island.dump_fraction_of_population(fraction)`: (dumped, remaining) -/
def dumpFraction (num den : Nat) (shuffle : List Nat) (pop : List Indiv) : Option (List Indiv × List Indiv) :=
  match applyPerm shuffle pop with
  | none => none
  | some sh =>
    let idx := pyRoundFrac num den sh.length
    some (sh.take idx, sh.drop idx)

def resetFitness (pop : List Indiv) : List Indiv := pop.map fun i => { i with flag := false }

def frac (k : Nat) : Nat × Nat := Gen.Consts.migrationFractions.getD k (0, 1)

/-- `_population_exchange_program` followed by the two `reset_fitness()` calls -/
def exchange (sh1 sh2 : List Nat) (p1 p2 : List Indiv) : Option (List Indiv × List Indiv) :=
  match dumpFraction (frac 0).1 (frac 0).2 sh1 p1, dumpFraction (frac 1).1 (frac 1).2 sh2 p2 with
  | some (to2, rest1), some (to1, rest2) => some (resetFitness (rest1 ++ to1), resetFitness (rest2 ++ to2))
  | _, _ => none

/-- `_coordinate_migration_between_islands`: `order` = the shuffled island indices,
`shuffles` = the population shuffles in call order (two per pair) -/
def migrate (order : List Nat) (shuffles : List (List Nat)) (islands : List (List Indiv)) : Option (List (List Indiv)) :=
  if !isPerm order islands.length then none
  else
    let rec go (k : Nat) (fuel : Nat) (isl : List (List Indiv)) : Option (List (List Indiv)) :=
      match fuel with
      | 0 => some isl
      | fuel+1 =>
        match order[2*k]?, order[2*k+1]?, shuffles[2*k]?, shuffles[2*k+1]? with
        | some a, some b, some s1, some s2 =>
          match isl[a]?, isl[b]? with
          | some pa, some pb =>
            match exchange s1 s2 pa pb with
            | none => none
            | some (pa', pb') => go (k+1) fuel ((isl.set a pa').set b pb')
          | _, _ => none
        | _, _, _, _ => none
    go 0 (islands.length / 2) islands

end Migration
end Bingo
