import Model.Scalar
/-!
# VExpr: expression language for the metric and metric-derivative functions
(`fitness_function.py`, `gradient_mixin.py`), emitted by the translator.

A value is a scalar or a length-M vector; numpy broadcasting scalar∘vector is elementwise.
The derivative functions are interpreted for one constant at a time: `partials` is the row of
`fitness_partials` (= Jacobian column) of that constant and `np.mean(·, axis=1)` is its mean.
-/
namespace Bingo

inductive VFn where
  | sqrt | log | abs | square | sign
  deriving Repr, DecidableEq, Inhabited

inductive VExpr where
  | vec                          -- the fitness vector
  | partials                     -- fitness_partials[k, :]
  | lit (num : Int) (den : Nat)
  | pi                           -- np.pi
  | len                          -- len(vector) / np.size(vector)
  | nparams                      -- individual.get_number_local_optimization_params()
  | var (name : String)
  | add (a b : VExpr) | sub (a b : VExpr) | mul (a b : VExpr) | div (a b : VExpr)
  | neg (a : VExpr)
  | fn (f : VFn) (a : VExpr)
  | mean (a : VExpr)             -- np.mean(a)  /  np.mean(a, axis=1) at row k
  | unsupported (why : String)
  deriving Repr, Inhabited

/-- a metric function: local assignments then the returned expression -/
structure VFun where
  lets : List (String × VExpr)
  ret : VExpr
  deriving Repr, Inhabited

inductive VVal (α : Type) where
  | s (x : α)
  | v (xs : List α)
  deriving Repr, Inhabited

namespace VExpr
variable {α : Type} [Scalar α]

def lift2 (op : α → α → α) : VVal α → VVal α → VVal α
  | .s a, .s b => .s (op a b)
  | .s a, .v bs => .v (bs.map (op a))
  | .v as, .s b => .v (as.map (op · b))
  | .v as, .v bs => .v (List.zipWith op as bs)

def lift1 (op : α → α) : VVal α → VVal α
  | .s a => .s (op a)
  | .v as => .v (as.map op)

def sumList (xs : List α) : α := xs.foldl Scalar.add (Scalar.ofInt 0)

def meanVal : VVal α → VVal α
  | .s a => .s a
  | .v as => .s (Scalar.div (sumList as) (Scalar.ofInt (Int.ofNat as.length)))

def applyFn : VFn → α → α
  | .sqrt => Scalar.sqrt
  | .log => Scalar.log
  | .abs => Scalar.abs
  | .square => fun x => Scalar.mul x x
  | .sign => Scalar.sign

structure Env (α : Type) where
  vec : List α
  partials : List α
  nparams : Nat
  pi : α
  vars : List (String × VVal α)

def interp (env : Env α) : VExpr → Option (VVal α)
  | vec => some (.v env.vec)
  | partials => some (.v env.partials)
  | lit n d => some (.s (Scalar.div (Scalar.ofInt n) (Scalar.ofInt (Int.ofNat d))))
  | pi => some (.s env.pi)
  | len => some (.s (Scalar.ofInt (Int.ofNat env.vec.length)))
  | nparams => some (.s (Scalar.ofInt (Int.ofNat env.nparams)))
  | var name => env.vars.lookup name
  | add a b => do let x ← a.interp env; let y ← b.interp env; pure (lift2 Scalar.add x y)
  | sub a b => do let x ← a.interp env; let y ← b.interp env; pure (lift2 Scalar.sub x y)
  | mul a b => do let x ← a.interp env; let y ← b.interp env; pure (lift2 Scalar.mul x y)
  | div a b => do let x ← a.interp env; let y ← b.interp env; pure (lift2 Scalar.div x y)
  | neg a => do let x ← a.interp env; pure (lift1 (Scalar.sub (Scalar.ofInt 0)) x)
  | fn f a => do let x ← a.interp env; pure (lift1 (applyFn f) x)
  | mean a => do let x ← a.interp env; pure (meanVal x)
  | unsupported _ => none

end VExpr

namespace VFun
variable {α : Type} [Scalar α]

def evalLets (env : VExpr.Env α) : List (String × VExpr) → Option (VExpr.Env α)
  | [] => some env
  | (name, e) :: rest =>
    match e.interp env with
    | none => none
    | some v => evalLets { env with vars := (name, v) :: env.vars } rest

/-- value of the function (must be a scalar) -/
def eval (f : VFun) (vec partials : List α) (nparams : Nat) (piVal : α) : Option α :=
  match evalLets { vec := vec, partials := partials, nparams := nparams, pi := piVal, vars := [] } f.lets with
  | none => none
  | some env =>
    match f.ret.interp env with
    | some (.s x) => some x
    | _ => none

end VFun
end Bingo
