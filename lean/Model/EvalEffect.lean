import Model.Key
/-!
# The evaluation phase for a fitness function with an effect on the individual

`Model/Pipeline.lean` models `Evaluation._serial_eval` / `_multiprocess_eval` for a fitness
function that is a pure function of the genome.  A wrapped (locally optimizing) fitness function
also CHANGES the individual it is called on: it stores optimized constants in it and clears its
optimization request, and the fitness it returns is the base fitness of the individual AFTER that
change.  Here an individual carries a `state` (everything the fitness function may change) and a
fitness function is

* `F : Nat → Nat → Nat × Key` -- genome, state ↦ (new state, returned fitness),
* `cost : Nat → Nat → Nat`    -- base-fitness invocations of one call on (genome, state).

In the serial phase the effect happens in place on the slot's own object.  In the multiprocess
phase the worker runs the function on a pickled COPY (as a value: the same record), the copy comes
back and REPLACES the slot (`population[i] = indv`).  `multiprocessEvalLossyE` is the variant that
sends back only the fitness value and keeps the parent's object in the slot
(`population[i].fitness = fitness`): the effect on the copy is lost.
-/
namespace Bingo
namespace EvalEffect

structure EInd where
  genome : Nat
  state : Nat               -- optimized constants, optimization request, …
  fit : Option Key          -- `none` = Python None
  flag : Bool               -- fit_set
  age : Nat
  deriving Repr, DecidableEq, Inhabited

/-- `indv.fitness = fitness_function(indv)`: the call changes the state, the setter stores the
returned value and sets `fit_set` -/
def evalOneE (F : Nat → Nat → Nat × Key) (i : EInd) : EInd :=
  let r := F i.genome i.state
  { i with state := r.1, fit := some r.2, flag := true }

/-- `Evaluation._serial_eval`: the population and the number of base-fitness invocations -/
def serialEvalE (F : Nat → Nat → Nat × Key) (cost : Nat → Nat → Nat) (redundant : Bool) :
    List EInd → List EInd × Nat
  | [] => ([], 0)
  | i :: rest =>
    let (r, n) := serialEvalE F cost redundant rest
    if redundant || !i.flag then (evalOneE F i :: r, n + cost i.genome i.state)
    else (i :: r, n)

/-- `_fitness_job`: (slot, the evaluated copy, extra evaluations); the cost is that of the call on
the individual as it was submitted -/
def jobE (F : Nat → Nat → Nat × Key) (cost : Nat → Nat → Nat) (slot : Nat) (i : EInd) :
    Nat × EInd × Nat :=
  (slot, evalOneE F i, cost i.genome i.state)

def jobsE (F : Nat → Nat → Nat × Key) (cost : Nat → Nat → Nat) (redundant : Bool) (pop : List EInd) :
    List (Nat × EInd × Nat) :=
  (pop.zipIdx.filter fun p => redundant || !p.1.flag).map fun p => jobE F cost p.2 p.1

/-- `indv, extra_evals, i = res.get(); eval_count += extra_evals; population[i] = indv` -/
def applyResultsE (pop : List EInd) (count : Nat) : List (Nat × EInd × Nat) → List EInd × Nat
  | [] => (pop, count)
  | (slot, indv, extra) :: rest => applyResultsE (pop.set slot indv) (count + extra) rest

def multiprocessEvalE (F : Nat → Nat → Nat × Key) (cost : Nat → Nat → Nat) (redundant : Bool)
    (pop : List EInd) (order : List (Nat × EInd × Nat) → List (Nat × EInd × Nat)) : List EInd × Nat :=
  applyResultsE pop 0 (order (jobsE F cost redundant pop))

/-! ## the variant that returns only the fitness value -/

/-- `population[i].fitness = fitness`: the slot keeps its own object (its own `state`) -/
def setFitnessE (i : EInd) (k : Key) : EInd := { i with fit := some k, flag := true }

/-- the parent reads only the fitness of the returned copy -/
def applyFitnessOnlyE (pop : List EInd) (count : Nat) : List (Nat × EInd × Nat) → List EInd × Nat
  | [] => (pop, count)
  | (slot, indv, extra) :: rest =>
    applyFitnessOnlyE (pop.modify slot fun i => setFitnessE i (indv.fit.getD none)) (count + extra) rest

def multiprocessEvalLossyE (F : Nat → Nat → Nat × Key) (cost : Nat → Nat → Nat) (redundant : Bool)
    (pop : List EInd) (order : List (Nat × EInd × Nat) → List (Nat × EInd × Nat)) : List EInd × Nat :=
  applyFitnessOnlyE pop 0 (order (jobsE F cost redundant pop))

end EvalEffect
end Bingo
