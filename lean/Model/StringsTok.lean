import Model.Strings
import Model.Tree
/-!
# Token-level view of the sympy printer, and the grammar the parser implements (C16)

Executable, import-free companions of `Model/Strings.lean`:

* `Str.sympyStr`  : the obvious recursive (tree) version of the row-by-row sympy printer
  `Str.format .sympy`, through the SAME generated templates (`Tables.SYMPY_PRINT_MAP`) and `pyFormat`.
* `Str.sympyToks` : the token list `Str.tokenize` produces from `sympyStr` (hand table of function names and
  operator tokens; `Proofs/Props/C16.lean` pins the hand table to the generated tables by `decide`).
* `Str.parseToks` : the parser after tokenisation.
* `Str.GE`        : abstract syntax of the precedence grammar without unary minus
  `E := T (("+"|"-") T)*, T := F (("*"|"/") F)*, F := P ("^" F)?, P := atom | "(" E ")" | fn "(" E ")"`,
  with its infix token list `GE.toks` and postfix token list `GE.post`; `GE.ok k e` says that `e` is
  derivable from the nonterminal of level `k` (0 = E, 1 = T, 2 = F, 3 = P).
* `Str.parseTree` : the (re-associated) syntax tree the parser builds from `sympyToks consts t`.
* `Str.printOK`   : the decidable domain of the round trip.
-/
namespace Bingo
namespace Str
open Tables Gen.OpDefs

/-! ## hand tables (pinned to the generated ones in `Proofs/Props/C16.lean`) -/

/-- sympy / parser name of the unary nodes -/
def unName (n : Int) : Option String :=
  if n = SIN then some "sin"
  else if n = COS then some "cos"
  else if n = SINH then some "sinh"
  else if n = COSH then some "cosh"
  else if n = EXPONENTIAL then some "exp"
  else if n = LOGARITHM then some "log"
  else if n = ABS then some "abs"
  else if n = SQRT then some "sqrt"
  else none

/-- infix operator token (after the tokenizer rewrote `**` to `^`) of the binary nodes -/
def binName (n : Int) : Option String :=
  if n = ADDITION then some "+"
  else if n = SUBTRACTION then some "-"
  else if n = MULTIPLICATION then some "*"
  else if n = DIVISION then some "/"
  else if n = POWER then some "^"
  else if n = SAFE_POWER then some "^"
  else none

/-- the token nothing parses (`string_generation` prints a constant without value as `?`) -/
def BAD_TOK : String := "?"

def okOr (e : Except String String) : String :=
  match e with
  | .ok s => s
  | .error _ => BAD_TOK

/-! ## printing a tree -/

/-- the token of a terminal: `x_k` (the tokenizer lower-cases `X_k`), the constant's string, the numeral -/
def leafTok (consts : List String) (node p1 : Int) : String :=
  if node = VARIABLE then "x_" ++ toString p1
  else if node = CONSTANT then
    if constHasNoValue consts p1 then BAD_TOK else okOr (pyGet consts p1)
  else if node = INTEGER then toString p1
  else BAD_TOK

/-- token list of the sympy string of a tree -/
def sympyToks (consts : List String) : ETree → List String
  | .bad => [BAD_TOK]
  | .leaf n p => [leafTok consts n p]
  | .un n a =>
    match unName n with
    | some f => [f, "("] ++ sympyToks consts a ++ [")"]
    | none => [BAD_TOK]
  | .bin n a b =>
    if n = ADDITION then sympyToks consts a ++ ["+"] ++ sympyToks consts b
    else if n = SUBTRACTION then sympyToks consts a ++ ["-", "("] ++ sympyToks consts b ++ [")"]
    else if n = SAFE_POWER then
      ["abs", "("] ++ sympyToks consts a ++ [")", "^", "("] ++ sympyToks consts b ++ [")"]
    else match binName n with
      | some o => ["("] ++ sympyToks consts a ++ [")", o, "("] ++ sympyToks consts b ++ [")"]
      | none => [BAD_TOK]

/-- the string of a terminal, as `_get_formatted_element_string` prints it -/
def leafStr (consts : List String) (node p1 : Int) : String :=
  if node = VARIABLE then okOr (pyFormat VARIABLE_TEMPLATE [toString p1])
  else if node = CONSTANT then
    if constHasNoValue consts p1 then CONST_NO_VALUE else okOr (pyGet consts p1)
  else if node = INTEGER then toString p1
  else BAD_TOK

/-- the sympy string of a tree: `str.format` of the generated template on the strings of the operands -/
def sympyStr (consts : List String) : ETree → String
  | .bad => BAD_TOK
  | .leaf n p => leafStr consts n p
  | .un n a =>
    match SYMPY_PRINT_MAP.lookup n with
    | some tmpl => okOr (pyFormat tmpl [sympyStr consts a])
    | none => BAD_TOK
  | .bin n a b =>
    match SYMPY_PRINT_MAP.lookup n with
    | some tmpl => okOr (pyFormat tmpl [sympyStr consts a, sympyStr consts b])
    | none => BAD_TOK

/-- the parser after tokenisation -/
def parseToks (toks : List String) : Except String (Stack × List String) :=
  infixToPostfix toks >>= postfixToCommands

/-! ## the precedence grammar -/

inductive GE where
  | atom (tok : String)
  | paren (e : GE)
  | fn (f : String) (e : GE)
  | op (o : String) (l r : GE)
  deriving Repr, Inhabited, DecidableEq

namespace GE

/-- infix token list -/
def toks : GE → List String
  | atom a => [a]
  | paren e => LPAREN :: (toks e ++ [RPAREN])
  | fn f e => f :: LPAREN :: (toks e ++ [RPAREN])
  | op o l r => toks l ++ o :: toks r

/-- postfix token list -/
def post : GE → List String
  | atom a => [a]
  | paren e => post e
  | fn f e => post e ++ [f]
  | op o l r => post l ++ post r ++ [o]

/-- a token that is neither an operator, a function name nor a parenthesis -/
def isAtomTok (a : String) : Bool :=
  !operators.contains a && !functions.contains a && a != LPAREN && a != RPAREN

/-- `ok k e`: `e` is derivable from the nonterminal of level `k`
(0 = E, 1 = T, 2 = F, 3 = P; `^` is right associative, the other operators left associative) -/
def ok : Nat → GE → Bool
  | _, atom a => isAtomTok a
  | _, paren e => ok 0 e
  | _, fn f e => functions.contains f && ok 0 e
  | k, op o l r =>
    operators.contains o && decide (k ≤ prec o) &&
      (if o = RIGHT_ASSOC then ok (prec o + 1) l && ok (prec o) r
       else ok (prec o) l && ok (prec o + 1) r)

/-- `l o r` where `r` is spliced in without parentheses: the left-most leaf of the additive spine of `r`
becomes the right operand of `o` (this is how `a + (b - c)`, printed `a + b - (c)`, is read) -/
def graft (o : String) (l : GE) : GE → GE
  | op o' rl rr => if prec o' = prec o then op o' (graft o l rl) rr else op o l (op o' rl rr)
  | r => op o l r

end GE

/-- the syntax tree the parser builds from `sympyToks consts t` -/
def parseTree (consts : List String) : ETree → GE
  | .bad => .atom BAD_TOK
  | .leaf n p => .atom (leafTok consts n p)
  | .un n a =>
    match unName n with
    | some f => .fn f (parseTree consts a)
    | none => .atom BAD_TOK
  | .bin n a b =>
    if n = ADDITION then GE.graft "+" (parseTree consts a) (parseTree consts b)
    else if n = SUBTRACTION then .op "-" (parseTree consts a) (.paren (parseTree consts b))
    else if n = SAFE_POWER then .op "^" (.fn "abs" (parseTree consts a)) (.paren (parseTree consts b))
    else match binName n with
      | some o => .op o (.paren (parseTree consts a)) (.paren (parseTree consts b))
      | none => .atom BAD_TOK

/-! ## the domain of the round trip -/

/-- what is true of Python's `repr` of a finite float (`-2.5`, `1e-05`, `1e+20`, `0.1`): `float()` accepts it,
it is not an integer numeral, not a variable / constant name, not an operator, function name or parenthesis,
it is ASCII and `str.lower` leaves it alone -/
def constTokOK (tok : String) : Bool :=
  let t := tok.toList
  pyFloatOk t && !matchInt t && (matchVarOrConst t).isNone && GE.isAtomTok tok &&
    t.all (fun c => decide (c.toNat < 128)) && decide (lowerAscii t = t)

/-- trees whose sympy string parses back: the 17 node types at positions of the right arity, CONSTANT
indices in range with a float-like string, INTEGER / VARIABLE parameters within C `long`, VARIABLE index ≥ 0 -/
def printOK (consts : List String) : ETree → Bool
  | .bad => false
  | .leaf n p =>
    if n = VARIABLE then decide (0 ≤ p) && fitsInt64 p
    else if n = CONSTANT then
      decide (0 ≤ p) && (match consts[p.toNat]? with
        | some c => constTokOK c
        | none => false)
    else if n = INTEGER then fitsInt64 p
    else false
  | .un n a => (unName n).isSome && printOK consts a
  | .bin n a b => (binName n).isSome && printOK consts a && printOK consts b

end Str
end Bingo
