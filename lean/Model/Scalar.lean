/-!
# Scalar: the arithmetic the evaluation backend uses, abstracted

`operator_eval.py` uses `+ - * /`, `np.sin cos sinh cosh exp log abs sqrt sign` and `np.power`.
Everything structural is proved for an arbitrary instance (so also for the `Float` instance
the driver runs); analytic statements instantiate it with `ℝ` in `Proofs`.
-/
namespace Bingo

class Scalar (α : Type) where
  ofInt : Int → α
  add : α → α → α
  sub : α → α → α
  mul : α → α → α
  div : α → α → α
  pow : α → α → α
  sin : α → α
  cos : α → α
  sinh : α → α
  cosh : α → α
  exp : α → α
  log : α → α
  abs : α → α
  sqrt : α → α
  sign : α → α

namespace Scalar

/-- numpy's `np.sign` on binary64: NaN stays NaN -/
def floatSign (x : Float) : Float :=
  if x > 0 then 1.0 else if x < 0 then -1.0 else if x == 0 then 0.0 else x

instance : Scalar Float where
  ofInt := Float.ofInt
  add := (· + ·)
  sub := (· - ·)
  mul := (· * ·)
  div := (· / ·)
  pow := Float.pow
  sin := Float.sin
  cos := Float.cos
  sinh := Float.sinh
  cosh := Float.cosh
  exp := Float.exp
  log := Float.log
  abs := Float.abs
  sqrt := Float.sqrt
  sign := floatSign

end Scalar

end Bingo
