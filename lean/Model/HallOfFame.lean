import Model.Key
/-!
# `stats/hall_of_fame.py` and `stats/pareto_front.py`

`_keys` and `_items` are parallel lists that are only ever changed together (`insert`, `remove`,
`clear`), so the model keeps one list of `Item`s.  `id` is the identity of the offered individual
(the harness uses the arrival number), `key` the primary key, `key2` the Pareto secondary key.
`none` results = Python raises (`IndexError`).
-/
namespace Bingo
namespace HOF

structure Item where
  key : Key
  key2 : Key
  id : Nat
  deriving Repr, DecidableEq, Inhabited

/-- `bisect.bisect_right(a, x)` verbatim (`lo, hi = 0, len(a)`; `if x < a[mid]: hi = mid else: lo = mid+1`) -/
def bisectGo (a : List Key) (x : Key) : Nat → Nat → Nat → Nat
  | 0, lo, _ => lo
  | fuel+1, lo, hi =>
    if lo < hi then
      let mid := (lo + hi) / 2
      if Key.lt x (a.getD mid none) then bisectGo a x fuel lo mid
      else bisectGo a x fuel (mid + 1) hi
    else lo

def bisectRight (a : List Key) (x : Key) : Nat := bisectGo a x (a.length + 1) 0 a.length

def insertAt {β : Type} (l : List β) (i : Nat) (b : β) : List β := l.take i ++ b :: l.drop i

/-- `HallOfFame.insert` -/
def insert (h : List Item) (it : Item) : List Item :=
  insertAt h (bisectRight (h.map (·.key)) it.key) it

/-- `remove(index)` with Python index semantics (`del lst[index]`) -/
def remove (h : List Item) (idx : Int) : Option (List Item) :=
  let n := h.length
  if 0 ≤ idx then (if idx.toNat < n then some (h.eraseIdx idx.toNat) else none)
  else if idx + n ≥ 0 then some (h.eraseIdx (idx + n).toNat) else none

def notSimilar (sim : Item → Item → Bool) (h : List Item) (it : Item) : Bool :=
  h.all fun i => !sim i it

/-- `_item_should_be_added` (`sim = none`: no similarity function) -/
def shouldAdd (maxSize : Nat) (sim : Option (Item → Item → Bool)) (h : List Item) (it : Item) : Bool :=
  if it.key.isNan then false
  else if h.isEmpty then true
  else if Key.le it.key (h.getLast?.map (·.key)).join || decide (h.length < maxSize) then
    match sim with
    | none => true
    | some f => notSimilar f h it
  else false

/-- one iteration of `HallOfFame.update` -/
def offer (maxSize : Nat) (sim : Option (Item → Item → Bool)) (h : List Item) (it : Item) : Option (List Item) :=
  if shouldAdd maxSize sim h it then
    if h.length ≥ maxSize then (remove h (-1)).map (insert · it)
    else some (insert h it)
  else some h

def update (maxSize : Nat) (sim : Option (Item → Item → Bool)) : List Item → List Item → Option (List Item)
  | h, [] => some h
  | h, it :: rest =>
    match offer maxSize sim h it with
    | none => none
    | some h' => update maxSize sim h' rest

/-! ## Pareto front -/

/-- `_first_dominates(first, second)` -/
def firstDominates (a b : Item) : Bool :=
  if Key.gt a.key b.key || Key.gt a.key2 b.key2 then false
  else Key.ne a.key b.key || Key.ne a.key2 b.key2

def notDominated (h : List Item) (it : Item) : Bool :=
  if it.key.isNan || it.key2.isNan then false
  else h.all fun m => !firstDominates m it

/-- `_remove_dominated_pf_members`: indices collected in order, removed in reverse order -/
def removeDominated (h : List Item) (it : Item) : List Item :=
  h.filter fun m => !firstDominates it m

def pfOffer (sim : Option (Item → Item → Bool)) (h : List Item) (it : Item) : List Item :=
  let ns := match sim with
    | none => true
    | some f => notSimilar f h it
  if notDominated h it && ns then insert (removeDominated h it) it else h

def pfUpdate (sim : Option (Item → Item → Bool)) (h : List Item) (pop : List Item) : List Item :=
  pop.foldl (pfOffer sim) h

end HOF
end Bingo
