/-!
# Command stacks

Row `i` of an `AGraph` command array is `(node, p1, p2)`.
-/
namespace Bingo

structure Cmd where
  node : Int
  p1 : Int
  p2 : Int
  deriving Repr, DecidableEq, Inhabited, BEq

abbrev Stack := List Cmd

/-- Python sequence indexing: `seq[p]` for a sequence of length `n` (negative indices wrap,
out-of-range raises `IndexError` = `none`). -/
def pyIdx (n : Nat) (p : Int) : Option Nat :=
  if 0 ≤ p then (if p.toNat < n then some p.toNat else none)
  else if p + n ≥ 0 then some (p + n).toNat else none

theorem pyIdx_of_lt {n : Nat} {p : Int} (h0 : 0 ≤ p) (h : p.toNat < n) : pyIdx n p = some p.toNat := by
  simp [pyIdx, h0, h]

theorem pyIdx_lt {n : Nat} {p : Int} {j : Nat} (h : pyIdx n p = some j) : j < n := by
  unfold pyIdx at h
  split at h
  · split at h
    · cases h; assumption
    · cases h
  · split at h
    · cases h; omega
    · cases h

end Bingo
