import Model.Stack
import Model.RExpr
import Model.Generated.OpDefs
import Model.Generated.OpRules
/-!
# Evaluation backend (`evaluation_backend.py`), value level

`fwd` mirrors `_forward_eval` at one data row, `rev` mirrors `_reverse_eval`.  The per-node
behaviour is *not* written here: it is looked up in `Gen.OpRules`, which the translator
regenerates from `operator_eval.py` on every run.  `none` means "Python raises".
-/
namespace Bingo

namespace Eval
variable {α : Type} [Scalar α]

def fwdRule (node : Int) : Option RExpr := Gen.OpRules.fwdRules.lookup node
def revRule (node : Int) : Option (List RevStmt) := Gen.OpRules.revRules.lookup node

/-- `forward_eval[p]` while rows `0 .. acc.length-1` are filled in a list of length `N` -/
def lookupFwd (N : Nat) (acc : List α) (p : Int) : Option α :=
  (pyIdx N p).bind (acc[·]?)

def fwdCtx (N : Nat) (x c acc : List α) (cmd : Cmd) : RuleCtx α :=
  { intParam := Scalar.ofInt cmd.p1
    loadX := (pyIdx x.length cmd.p1).bind (x[·]?)
    loadC := (pyIdx c.length cmd.p1).bind (c[·]?)
    fwd := fun r => match r with
      | .p1 => lookupFwd N acc cmd.p1
      | .p2 => lookupFwd N acc cmd.p2
      | .self => none
    rev := none }

def fwdRow (N : Nat) (x c acc : List α) (cmd : Cmd) : Option α :=
  match fwdRule cmd.node with
  | none => none
  | some rule => rule.interp (fwdCtx N x c acc cmd)

def fwdAux (N : Nat) (x c : List α) : List Cmd → List α → Option (List α)
  | [], acc => some acc
  | cmd :: rest, acc =>
    match fwdRow N x c acc cmd with
    | none => none
    | some v => fwdAux N x c rest (acc ++ [v])

/-- `_forward_eval(stack, x, constants)` at one data row -/
def fwd (s : Stack) (x c : List α) : Option (List α) := fwdAux s.length x c s []

/-- `evaluate`: the last entry -/
def evalLast (s : Stack) (x c : List α) : Option α :=
  (fwd s x c).bind (·.getLast?)

/-! ## reverse sweep -/

def revCtx (N : Nat) (fw radj : List α) (i : Nat) (cmd : Cmd) : RuleCtx α :=
  { intParam := Scalar.ofInt cmd.p1
    loadX := none
    loadC := none
    fwd := fun r => match r with
      | .p1 => (pyIdx N cmd.p1).bind (fw[·]?)
      | .p2 => (pyIdx N cmd.p2).bind (fw[·]?)
      | .self => fw[i]?
    rev := radj[i]? }

def refIdx (N : Nat) (i : Nat) (cmd : Cmd) : Ref → Option Nat
  | .p1 => pyIdx N cmd.p1
  | .p2 => pyIdx N cmd.p2
  | .self => some i

def applyStmt (N : Nat) (fw : List α) (i : Nat) (cmd : Cmd) (radj : List α) (st : RevStmt) :
    Option (List α) := do
  let v ← st.expr.interp (revCtx N fw radj i cmd)
  let j ← refIdx N i cmd st.target
  let old ← radj[j]?
  let new := match st.mode with
    | .addTo => Scalar.add old v
    | .subFrom => Scalar.sub old v
    | .assign => v
  pure (radj.set j new)

def applyStmts (N : Nat) (fw : List α) (i : Nat) (cmd : Cmd) :
    List RevStmt → List α → Option (List α)
  | [], radj => some radj
  | st :: rest, radj =>
    match applyStmt N fw i cmd radj st with
    | none => none
    | some r => applyStmts N fw i cmd rest r

/-- one iteration of the loop in `_reverse_eval`, at row `i`; state = (reverse_eval, derivative) -/
def revStep (s : Stack) (wrt : Int) (fw : List α) (i : Nat) (st : List α × List α) :
    Option (List α × List α) :=
  match s[i]? with
  | none => none
  | some cmd =>
    if cmd.node = wrt then do
      let j ← pyIdx st.2.length cmd.p1
      let old ← st.2[j]?
      let r ← st.1[i]?
      pure (st.1, st.2.set j (Scalar.add old r))
    else
      match revRule cmd.node with
      | none => none
      | some stmts => (applyStmts s.length fw i cmd stmts st.1).map (·, st.2)

/-- rows `k-1, k-2, …, 0` -/
def revSweep (s : Stack) (wrt : Int) (fw : List α) : Nat → List α × List α → Option (List α × List α)
  | 0, st => some st
  | k+1, st =>
    match revStep s wrt fw k st with
    | none => none
    | some st' => revSweep s wrt fw k st'

def zero : α := Scalar.ofInt 0
def one : α := Scalar.ofInt 1

/-- `_reverse_eval`: derivative of the last row w.r.t. the `ncols` columns loaded by `wrt` rows -/
def rev (s : Stack) (wrt : Int) (ncols : Nat) (fw : List α) : Option (List α) :=
  match s.length with
  | 0 => none
  | n+1 =>
    let radj0 : List α := List.replicate n zero ++ [one]
    (revSweep s wrt fw (n+1) (radj0, List.replicate ncols zero)).map (·.2)

/-- `evaluate_with_derivative(stack, x, constants, wrt_x)` at one data row -/
def evalWithDeriv (s : Stack) (x c : List α) (wrtX : Bool) : Option (α × List α) := do
  let fw ← fwd s x c
  let last ← fw.getLast?
  let d ← if wrtX then rev s Gen.OpDefs.VARIABLE x.length fw else rev s Gen.OpDefs.CONSTANT c.length fw
  pure (last, d)

end Eval

end Bingo
