/-!
# `implicit_regression.py`: Savitzky–Golay (Gram polynomial) derivative estimation and
`_calculate_partials`, over exact rationals

`window = 7`, `order = 3`, `deriv = 1` are the literal arguments at the call site (checked
against the regenerated constants in `Proofs/Props/C20.lean`).
-/
namespace Bingo
namespace SavGol

/-- `generalized_factorial(a, b)` = ∏_{j = a-b+1}^{a} j -/
def genFact (a b : Nat) : Nat := ((List.range b).map fun t => a - b + 1 + t).foldl (· * ·) 1

/-- `gram_polynomial(i, m, k, s)`; `k` is the recursion variable (`k ≤ 0` is the base case) -/
def gramPoly (i m : Int) : Nat → Int → Rat
  | 0, s => if s = 0 then 1 else 0
  | 1, s =>
    let k : Rat := 1
    (4 * k - 2) / (k * (2 * (m : Rat) - k + 1)) * ((i : Rat) * gramPoly i m 0 s + (s : Rat) * gramPoly i m 0 (s - 1))
  | (k'+2), s =>
    let k : Rat := ((k' + 2 : Nat) : Rat)
    (4 * k - 2) / (k * (2 * (m : Rat) - k + 1)) *
        ((i : Rat) * gramPoly i m (k'+1) s + (s : Rat) * gramPoly i m (k'+1) (s - 1))
      - ((k - 1) * (2 * (m : Rat) + k)) / (k * (2 * (m : Rat) - k + 1)) * gramPoly i m k' s

/-- `gram_weight(i, t, m, n, s)` -/
def gramWeight (i t : Int) (m n : Nat) (s : Int) : Rat :=
  ((List.range (n + 1)).map fun (k : Nat) =>
    (2 * ((k : Nat) : Rat) + 1) * (genFact (2 * m) k : Rat) / (genFact (2 * m + k + 1) (k + 1) : Rat)
      * gramPoly i (m : Int) k 0 * gramPoly t (m : Int) k s).foldl (· + ·) 0

/-- `weights[a][b]`, `a, b ∈ [0, 2m]` (row `a` = sample offset `a - m`, column `b` = which filter) -/
def weight (m n : Nat) (s : Int) (a b : Nat) : Rat :=
  gramWeight ((a : Int) - m) ((b : Int) - m) m n s

/-- `_savitzky_golay_gram(y, 2m+1, n, s)`; `none` = IndexError (series shorter than the window) -/
def savgol (m n : Nat) (s : Int) (y : List Rat) : Option (List Rat) :=
  let len := y.length
  (List.range len).mapM fun i =>
    let (center, wInd) :=
      if i < m then (m, i)
      else if len - i ≤ m then (len - m - 1, 2 * m + 1 - (len - i))
      else (i, m)
    if len < 2 * m + 1 then none
    else
      (List.range (2 * m + 1)).foldlM (fun acc a =>
        match y[center + a - m]? with
        | none => none
        | some v => some (acc + v * weight m n s a wInd)) (0 : Rat)

/-- break points: indices of rows that contain a NaN (`none`), then the length -/
def breakPoints (x : List (Option (List Rat))) : List Nat :=
  ((List.range x.length).filter fun i => (x[i]?).join.isNone) ++ [x.length]

def column (rows : List (List Rat)) (j : Nat) : List Rat := rows.map fun r => r.getD j 0

/-- one segment `[start, end)`: (retained indices, retained x rows, derivative rows) -/
def segment (m n : Nat) (s : Int) (dropHead dropTail : Nat) (x : List (Option (List Rat))) (start stop : Nat) :
    Option (List Nat × List (List Rat) × List (List Rat)) :=
  let rows := ((x.drop start).take (stop - start)).filterMap id
  if rows.length ≠ stop - start then none
  else
    let D := (x.filterMap id).head?.map (·.length) |>.getD 0
    match (List.range D).mapM fun j => savgol m n s (column rows j) with
    | none => none
    | some cols =>
      let L := rows.length
      let keep := (List.range L).filter fun i => dropHead ≤ i ∧ i + dropTail < L
      some (keep.map (· + start), keep.map (fun i => rows.getD i []),
            keep.map fun i => cols.map fun c => c.getD i 0)

/-- `_calculate_partials(x)`: rows are `none` when they contain a NaN -/
def calculatePartials (m n : Nat) (s : Int) (dropHead dropTail : Nat) (x : List (Option (List Rat))) :
    Option (List Nat × List (List Rat) × List (List Rat)) :=
  let rec go (start : Nat) : List Nat → (List Nat × List (List Rat) × List (List Rat)) →
      Option (List Nat × List (List Rat) × List (List Rat))
    | [], acc => some acc
    | stop :: rest, acc =>
      match segment m n s dropHead dropTail x start stop with
      | none => none
      | some (inds, xs, ds) => go (stop + 1) rest (acc.1 ++ inds, acc.2.1 ++ xs, acc.2.2 ++ ds)
  go 0 (breakPoints x) ([], [], [])

/-- one row of `ImplicitRegression.evaluate_fitness_vector`: Σ d_j / Σ |d_j|  (`none` = 0/0 or x/0: non-finite) -/
def implicitRow (dot : List Rat) : Option Rat :=
  let denom := (dot.map fun d => if d < 0 then -d else d).foldl (· + ·) 0
  if denom = 0 then none else some (dot.foldl (· + ·) 0 / denom)

/-- `ImplicitRegression._enough_parameters_used`: SOME row has at least `req` non-vanishing terms
(`(abs(dot_product) > 1e-16).sum(1)`, `np.any(n_params_used >= required_params)`; exact rationals here) -/
def enoughParams (req : Nat) (dots : List (List Rat)) : Bool :=
  dots.any fun row => decide (req ≤ (row.filter (· ≠ 0)).length)

/-- `ImplicitRegression.evaluate_fitness_vector`: with `required_params = some req` and no row using that many terms the
whole vector is `inf` (`none`); otherwise one normalised row per data row -/
def implicitVector (req : Option Nat) (dots : List (List Rat)) : List (Option Rat) :=
  match req with
  | some r => if enoughParams r dots then dots.map implicitRow else dots.map fun _ => none
  | none => dots.map implicitRow

end SavGol
end Bingo
