import Model.Key
/-!
# `LocalOptFitnessFunction.__call__`, `ScipyOptimizer.__call__`, `EquationRegressor.fit`

The optimizer is an arbitrary oracle: any finite sequence of trial parameter vectors (each trial
sets the individual's constants and calls one base-fitness entry point) and any final vector.
`base : List V → Key` is the (deterministic) base fitness as a function of the constants.
-/
namespace Bingo
namespace LocalOpt

structure Eqn (V : Type) where
  consts : List V
  needsOpt : Bool
  numParams : Nat
  deriving Repr, DecidableEq

structure Oracle (V : Type) where
  trials : List (List V)     -- what scipy passes to `_sub_routine_for_obj_fn`
  jacCalls : Nat             -- separate Jacobian / gradient evaluations scipy requests (they do not set constants)
  final : List V             -- `optimize_result.x`
  deriving Repr, DecidableEq

variable {V : Type}

/-- `ScipyOptimizer.__call__`; returns the individual and the number of base entry-point calls -/
def optimize (o : Oracle V) (e : Eqn V) : Eqn V × Nat :=
  if e.numParams = 0 then ({ e with consts := [], needsOpt := false }, 0)
  else ({ e with consts := o.final, needsOpt := false }, o.trials.length + o.jacCalls)

/-- `LocalOptFitnessFunction.__call__`: (returned fitness, individual afterwards, base calls) -/
def call (base : List V → Key) (o : Oracle V) (e : Eqn V) : Key × Eqn V × Nat :=
  if e.needsOpt then
    let (e', n) := optimize o e
    (base e'.consts, e', n + 1)
  else (base e.consts, e, 1)

/-- `EquationRegressor.fit`: first fit, then `retries` re-fits each with its own oracle; keeps the best by `<` -/
def refit (base : List V → Key) (first : Oracle V) (retries : List (Oracle V)) (e : Eqn V) : Key × Eqn V :=
  if e.numParams = 0 then (base e.consts, e)
  else
    let (f0, e0, _) := call base first e
    let (bestF, bestC, eLast) := retries.foldl (fun (acc : Key × List V × Eqn V) o =>
        let (bf, bc, cur) := acc
        let (f, cur', _) := call base o { cur with needsOpt := true }
        if Key.lt f bf then (f, cur'.consts, cur') else (bf, bc, cur')) (f0, e0.consts, e0)
    (bestF, { eLast with consts := bestC, needsOpt := false })

end LocalOpt
end Bingo
