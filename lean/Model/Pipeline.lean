import Model.Key
/-!
# Individuals, the evaluation phase, and generational steps as phase lists

* `Indiv` -- genome + stored fitness + evaluated flag + age (`Chromosome`).
* `serialEval` / `multiprocessEval` -- `Evaluation._serial_eval` / `_multiprocess_eval`.
* `Phase` -- the statements a `generational_step` is made of; the lists themselves are
  regenerated from the source into `Gen.Phases`.
* `absStep` -- an abstract interpreter over the three-point domain `Ev ⊑ Fr ⊑ Top` per
  container that accepts a phase list only if every fitness read is of an evaluated container.
-/
namespace Bingo
namespace Pipeline

structure Indiv where
  genome : Nat
  fit : Option Key          -- `none` = Python None
  flag : Bool               -- fit_set
  age : Nat
  deriving Repr, DecidableEq, Inhabited

/-- the stored fitness is not stale: an evaluated individual carries `f genome` -/
def Fresh (f : Nat → Key) (i : Indiv) : Prop := i.flag = true → i.fit = some (f i.genome)
def Evaluated (f : Nat → Key) (i : Indiv) : Prop := i.flag = true ∧ i.fit = some (f i.genome)

/-- `Evaluation._serial_eval`: returns the population and the number of fitness-function calls;
`cost g` = number of base-fitness invocations one call of the fitness function on genome `g`
makes (1 for a plain fitness function, more through local optimization) -/
def serialEval (f : Nat → Key) (cost : Nat → Nat) (redundant : Bool) : List Indiv → List Indiv × Nat
  | [] => ([], 0)
  | i :: rest =>
    let (r, n) := serialEval f cost redundant rest
    if redundant || !i.flag then ({ i with fit := some (f i.genome), flag := true } :: r, n + cost i.genome)
    else (i :: r, n)

/-- one job of `_multiprocess_eval`: (slot, evaluated copy, extra evaluations) -/
def job (f : Nat → Key) (cost : Nat → Nat) (slot : Nat) (i : Indiv) : Nat × Indiv × Nat :=
  (slot, { i with fit := some (f i.genome), flag := true }, cost i.genome)

def jobs (f : Nat → Key) (cost : Nat → Nat) (redundant : Bool) (pop : List Indiv) : List (Nat × Indiv × Nat) :=
  (pop.zipIdx.filter fun p => redundant || !p.1.flag).map fun p => job f cost p.2 p.1

/-- results are consumed in the order `order` (any order in which the pool hands them back;
the real code consumes them in submission order, the theorem covers every order) -/
def applyResults (pop : List Indiv) (count : Nat) : List (Nat × Indiv × Nat) → List Indiv × Nat
  | [] => (pop, count)
  | (slot, indv, extra) :: rest => applyResults (pop.set slot indv) (count + extra) rest

def multiprocessEval (f : Nat → Key) (cost : Nat → Nat) (redundant : Bool) (pop : List Indiv)
    (order : List (Nat × Indiv × Nat) → List (Nat × Indiv × Nat)) : List Indiv × Nat :=
  applyResults pop 0 (order (jobs f cost redundant pop))

/-! ## phases -/

inductive Src where
  | pop | off | popPlusOff
  deriving Repr, DecidableEq, Inhabited

inductive Phase where
  | variation                -- offspring = self.variation(population, n)
  | evalPop                  -- self.evaluation(population)
  | evalOff                  -- self.evaluation(offspring)
  | diagnostics              -- self.update_diagnostics(population, offspring): reads both
  | select (src : Src)       -- population' = self.selection(src, n): reads src
  | shuffle                  -- np.random.shuffle(next_gen)
  | resetPop                 -- reset_fitness(population) (migration, predictor update)
  | readPop                  -- best-individual query / hall-of-fame update on the population
  | unsupported (why : String)
  deriving Repr, DecidableEq, Inhabited

/-- abstract value of a container -/
inductive AVal where
  | ev      -- every member evaluated (flagged and fresh)
  | fr      -- every member fresh (a flagged member carries the right value)
  | none    -- container does not exist yet
  deriving Repr, DecidableEq, Inhabited

structure AState where
  pop : AVal
  off : AVal
  next : AVal               -- the list returned by the selection (a fresh local in the Python code)
  deriving Repr, DecidableEq, Inhabited

def AVal.join : AVal → AVal → AVal
  | .ev, .ev => .ev
  | .none, _ => .none
  | _, .none => .none
  | _, _ => .fr

def srcVal (a : AState) : Src → AVal
  | .pop => a.pop
  | .off => a.off
  | .popPlusOff => a.pop.join a.off

/-- `none` = a fitness read of a container that is not known to be evaluated.
`select` binds its result to a new container `next` and leaves `pop`/`off` as they are (the
diagnostics of the base `EvolutionaryAlgorithm` run after the selection, on `pop` and `off`). -/
def absStep (a : AState) : Phase → Option AState
  | .variation => if a.pop = .none then none else some { a with off := .fr }
  | .evalPop => if a.pop = .none then none else some { a with pop := .ev }
  | .evalOff => if a.off = .none then none else some { a with off := .ev }
  | .diagnostics => if a.pop = .ev ∧ a.off = .ev then some a else none
  | .select s => if srcVal a s = .ev then some { a with next := .ev } else none
  | .shuffle => if a.next = .none then none else some a
  | .resetPop => if a.pop = .none then none else some { a with pop := .fr }
  | .readPop => if a.pop = .ev then some a else none
  | .unsupported _ => none

def absRun : List Phase → AState → Option AState
  | [], a => some a
  | p :: rest, a =>
    match absStep a p with
    | none => none
    | some a' => absRun rest a'

/-- a generational step is accepted from an entry population in state `entry` iff every read is
safe and the returned population (`next`) is evaluated -/
def accepts (entry : AVal) (ps : List Phase) : Bool :=
  match absRun ps { pop := entry, off := .none, next := .none } with
  | some a => a.next = .ev
  | none => false

end Pipeline
end Bingo
