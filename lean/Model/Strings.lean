import Model.Stack
import Model.StringTables
/-!
# Equation string printer and string parser (C16)

Executable, import-free model of
* `bingo/symbolic_regression/agraph/string_generation.py` (`get_formatted_string` for the formats
  "console", "latex", "sympy", "stack"), and
* `bingo/symbolic_regression/agraph/string_parsing.py` (`eq_string_to_command_array_and_constants`).

Conventions
* Numeric constants are STRINGS end to end.  The printer receives each constant already rendered by
  Python: `_get_formatted_element_string` calls `str(constants[param1])`, `_get_stack_element_string`
  interpolates `{constants[param1]}` in an f-string, i.e. `format(c, "")`; for `float` and `numpy.float64`
  both are `float.__repr__` / `str` (shortest round-trip repr: `1e-05`, `1e+20`, `inf`, `nan`, `-2.5`),
  for `int` it is the decimal numeral.  No sign handling, rounding or parenthesisation is added by bingo.
  INTEGER rows are printed by `str(int(param1))` (non-stack formats) or `f"{param1}"` (stack format).
  The parser returns constants as the token that Python passes to `float(token)`.
* Exceptions are `Except String`; the string is `"<PythonExceptionClass>: <str(exception)>"`.  The messages
  of `RuntimeError`s are exact; for the other classes only the class is meaningful.
* Domain: the parser model is exact for ASCII input.  Non-ASCII input is rejected with the model-only class
  `ModelDomain` (Python's `\s`, `\d`, `str.lower`, `int`, `float` are Unicode aware; that part is not modelled).
* Sequences are lists; `stack`s inside the shunting-yard algorithms have their top at the head.
-/
namespace Bingo
namespace Str
open Tables

/-! ## Python primitives -/

/-- Python `seq[p]` on a list (negative indices wrap; out of range raises `IndexError`). -/
def pyGet {α : Type} (xs : List α) (p : Int) : Except String α :=
  match pyIdx xs.length p with
  | some j => match xs[j]? with
    | some x => pure x
    | none => throw "IndexError: list index out of range"
  | none => throw "IndexError: list index out of range"

/-- Python `dict[k]` on an association list (`KeyError` if absent). -/
def pyLookup {α : Type} (tbl : List (Int × α)) (k : Int) : Except String α :=
  match tbl.lookup k with
  | some v => pure v
  | none => throw s!"KeyError: {k}"

/-- Python `template.format(*args)` for templates made of literal text, `{}`, `{{` and `}}`
(all the templates of string_generation.py); surplus arguments are ignored as in Python. -/
def pyFormatAux : List Char → List String → Except String (List Char)
  | [], _ => pure []
  | '{' :: '{' :: r, args => do let t ← pyFormatAux r args; pure ('{' :: t)
  | '}' :: '}' :: r, args => do let t ← pyFormatAux r args; pure ('}' :: t)
  | '{' :: '}' :: r, args =>
    match args with
    | [] => throw "IndexError: Replacement index out of range for positional args tuple"
    | a :: as => do let t ← pyFormatAux r as; pure (a.toList ++ t)
  | '{' :: _, _ => throw "ValueError: unsupported replacement field in template"
  | '}' :: _, _ => throw "ValueError: Single '}' encountered in format string"
  | c :: r, args => do let t ← pyFormatAux r args; pure (c :: t)

/-- Python `str.format` (see `pyFormatAux`). -/
def pyFormat (tmpl : String) (args : List String) : Except String String :=
  (pyFormatAux tmpl.toList args).map String.ofList

/-! ## Printing: string_generation.py -/

inductive Fmt
  | console | latex | sympy | stack
  deriving Repr, DecidableEq, Inhabited

/-- mirrors the `if eq_format == …` chain of `get_formatted_string` (any other name means console) -/
def Fmt.ofString (s : String) : Fmt :=
  if s == FMT_STACK then .stack
  else if s == FMT_LATEX then .latex
  else if s == FMT_SYMPY then .sympy
  else .console

/-- mirrors the choice of `format_dict` in `get_formatted_string` -/
def Fmt.dict : Fmt → List (Int × String)
  | .latex => LATEX_PRINT_MAP
  | .sympy => SYMPY_PRINT_MAP
  | .console => CONSOLE_PRINT_MAP
  | .stack => STACK_PRINT_MAP

/-- mirrors the test `param1 == -1 or param1 >= len(constants)` shared by both element printers -/
def constHasNoValue (consts : List String) (p1 : Int) : Bool :=
  p1 == -1 || p1 ≥ (consts.length : Int)

/-- mirrors `string_generation._get_formatted_element_string` -/
def formattedElement (dict : List (Int × String)) (consts : List String) (strList : List String)
    (c : Cmd) : Except String String :=
  if c.node == Gen.OpDefs.VARIABLE then pyFormat VARIABLE_TEMPLATE [toString c.p1]
  else if c.node == Gen.OpDefs.CONSTANT then
    if constHasNoValue consts c.p1 then pure CONST_NO_VALUE
    else pyGet consts c.p1                       -- `str(constants[param1])`: already a string
  else if c.node == Gen.OpDefs.INTEGER then pure (toString c.p1)   -- `str(int(param1))`
  else do
    let tmpl ← pyLookup dict c.node
    let a ← pyGet strList c.p1
    let b ← pyGet strList c.p2
    pyFormat tmpl [a, b]

/-- the `for stack_element in command_array` loop of `get_formatted_string` (builds `str_list`) -/
def formattedLoop (dict : List (Int × String)) (consts : List String) :
    List Cmd → List String → Except String (List String)
  | [], strList => pure strList
  | c :: rest, strList => do
    let s ← formattedElement dict consts strList c
    formattedLoop dict consts rest (strList ++ [s])

/-- mirrors `string_generation._get_stack_element_string` -/
def stackElement (consts : List String) (i : Nat) (c : Cmd) : Except String String := do
  let pre ← pyFormat STACK_ROW_PREFIX [toString i]
  let body ←
    if c.node == Gen.OpDefs.VARIABLE then pyFormat VARIABLE_TEMPLATE [toString c.p1]
    else if c.node == Gen.OpDefs.CONSTANT then
      if constHasNoValue consts c.p1 then pure STACK_CONST_NO_VALUE
      else do
        let v ← pyGet consts c.p1                -- `{constants[param1]}` = `format(c, "")`
        pyFormat STACK_CONST_TEMPLATE [toString c.p1, v]
    else if c.node == Gen.OpDefs.INTEGER then pyFormat STACK_INTEGER_TEMPLATE [toString c.p1]
    else do
      let tmpl ← pyLookup STACK_PRINT_MAP c.node
      pyFormat tmpl [toString c.p1, toString c.p2]
  pure (pre ++ body ++ STACK_ROW_SUFFIX)

/-- mirrors `string_generation._get_stack_string` -/
def stackString (consts : List String) : Nat → List Cmd → String → Except String String
  | _, [], acc => pure acc
  | i, c :: rest, acc => do
    let s ← stackElement consts i c
    stackString consts (i + 1) rest (acc ++ s)

/-- mirrors `string_generation.get_formatted_string(eq_format, command_array, constants)`;
`consts` are the constants already rendered with `str(·)` -/
def format (f : Fmt) (st : Stack) (consts : List String) : Except String String :=
  match f with
  | .stack => stackString consts 0 st ""
  | f => do
    let strList ← formattedLoop f.dict consts st []
    pyGet strList (-1)                            -- `str_list[-1]`

/-! ## Character classes of Python `re` / C `ctype`, ASCII part -/

/-- `\s` of a Python `str` regex on ASCII: `[ \t\n\r\f\v]` and the separators `\x1c`-`\x1f` -/
def isReSpace (c : Char) : Bool :=
  let n := c.toNat
  (9 ≤ n && n ≤ 13) || (28 ≤ n && n ≤ 32)

/-- `\d` of a Python `str` regex on ASCII -/
def isReDigit (c : Char) : Bool := '0' ≤ c && c ≤ '9'

/-- C `Py_ISSPACE`: the characters `float()` strips from an ASCII string -/
def isCSpace (c : Char) : Bool :=
  let n := c.toNat
  (9 ≤ n && n ≤ 13) || n == 32

/-- Python `str.lower()` on ASCII -/
def lowerAscii (s : List Char) : List Char := s.map Char.toLower

/-! ## Tokenizer: `eq_string_to_infix_tokens` -/

/-- Python `pat in s` for strings -/
def containsSub (pat : List Char) : List Char → Bool
  | [] => pat.isEmpty
  | c :: r => pat.isPrefixOf (c :: r) || containsSub pat r

/-- Python `s.replace(old, new)` for non-empty `old` (leftmost, non-overlapping); first argument =
number of characters of a just-matched `old` still to skip -/
def replaceGo (old new : List Char) : Nat → List Char → List Char
  | _, [] => []
  | skip + 1, _ :: r => replaceGo old new skip r
  | 0, c :: r =>
    if old.isPrefixOf (c :: r) then new ++ replaceGo old new (old.length - 1) r
    else c :: replaceGo old new 0 r

/-- Python `s.replace(old, new)`, `old ≠ ""` -/
def pyReplace (old new s : List Char) : List Char :=
  if old.isEmpty then s else replaceGo old new 0 s

/-- expansion of an `re.sub` replacement template whose only escape is the group reference `\1` -/
def expandRepl (group1 : List Char) : List Char → List Char
  | '\\' :: '1' :: r => group1 ++ expandRepl group1 r
  | c :: r => c :: expandRepl group1 r
  | [] => []

-- the scanners below are written for exactly these regex literals; the build fails if the table changes
example : Tables.negative_pattern = "-([^\\s\\d])" := by decide
example : Tables.non_unary_op_pattern = "([*/^()])" := by decide
example : Tables.var_or_const_pattern = "([XC])_(\\d+)" ∧ Tables.var_or_const_pattern_ignorecase = true := by decide
example : Tables.int_pattern = "\\d+" := by decide

/-- `negative_pattern.sub(negative_repl, s)` with `negative_pattern = -([^\s\d])`: leftmost
non-overlapping matches of `-` followed by one character that is neither `\s` nor `\d` -/
def negativeSub : List Char → List Char
  | [] => []
  | ['-'] => ['-']
  | '-' :: c :: r =>
    if !isReSpace c && !isReDigit c then expandRepl [c] negative_repl.toList ++ negativeSub r
    else '-' :: negativeSub (c :: r)
  | c :: rest => c :: negativeSub rest

example : Tables.negative_base_pattern =
    "(?<![\\d.][eE])-((?:\\d+\\.?\\d*|\\.\\d+)(?:[eE][+-]?\\d+)?\\s*\\^)" := by decide
example : Tables.subOrder = ["negative_pattern", "negative_base_pattern", "non_unary_op_pattern"] := by decide

/-- consume a maximal run of digits: (number consumed, rest) -/
def spanDigits' : List Char → Nat × List Char
  | [] => (0, [])
  | c :: r => if isReDigit c then let (n, rest) := spanDigits' r; (n + 1, rest) else (0, c :: r)

/-- `(?:[eE][+-]?\d+)?` at the head (greedy; the group is skipped when it cannot match): the rest -/
def skipExponent : List Char → List Char
  | [] => []
  | c :: r =>
    if c == 'e' || c == 'E' then
      let r' := match r with
        | '+' :: t => t
        | '-' :: t => t
        | _ => r
      let (n, rest) := spanDigits' r'
      if n > 0 then rest else c :: r
    else c :: r

/-- number of characters `(?:\d+\.?\d*|\.\d+)(?:[eE][+-]?\d+)?\s*\^` matches at the head, if it matches (every
quantifier is followed by characters outside its own class, so the greedy match is the only one) -/
def matchNumberCaret (s : List Char) : Option Nat :=
  let (n1, r1) := spanDigits' s
  let afterMantissa : Option (List Char) :=
    if n1 > 0 then
      match r1 with
      | '.' :: r2 => some (spanDigits' r2).2
      | _ => some r1
    else
      match s with
      | '.' :: r2 => let (n2, r3) := spanDigits' r2; if n2 > 0 then some r3 else none
      | _ => none
  match afterMantissa with
  | none => none
  | some r =>
    match (skipExponent r).dropWhile isReSpace with
    | '^' :: rest => some (s.length - rest.length)
    | _ => none

/-- the lookbehind `(?<![\d.][eE])`: the two characters before the `-` -/
def lookbehindBlocks (p2 p1 : Option Char) : Bool :=
  match p2, p1 with
  | some a, some b => (isReDigit a || a == '.') && (b == 'e' || b == 'E')
  | _, _ => false

/-- `negative_base_pattern.sub(negative_base_repl, s)`: leftmost non-overlapping matches of `-` (not preceded by the
mantissa-and-`e` of a float literal) followed by a number and `^`.  Arguments: characters of the current match still
to be skipped, the two characters before the current position, the rest of the input -/
def negativeBaseGo : Nat → Option Char → Option Char → List Char → List Char
  | _, _, _, [] => []
  | skip + 1, _, p1, c :: r => negativeBaseGo skip p1 (some c) r
  | 0, p2, p1, c :: r =>
    if c == '-' && !lookbehindBlocks p2 p1 then
      match matchNumberCaret r with
      | some n => expandRepl (r.take n) negative_base_repl.toList ++ negativeBaseGo n p1 (some c) r
      | none => c :: negativeBaseGo 0 p1 (some c) r
    else c :: negativeBaseGo 0 p1 (some c) r

/-- `negative_base_pattern.sub(negative_base_repl, s)` -/
def negativeBaseSub (s : List Char) : List Char := negativeBaseGo 0 none none s

/-- the character class `[*/^()]` of `non_unary_op_pattern` -/
def isNonUnaryOp (c : Char) : Bool := c == '*' || c == '/' || c == '^' || c == '(' || c == ')'

/-- `non_unary_op_pattern.sub(non_unary_op_repl, s)` -/
def nonUnarySub : List Char → List Char
  | [] => []
  | c :: r => if isNonUnaryOp c then expandRepl [c] non_unary_op_repl.toList ++ nonUnarySub r else c :: nonUnarySub r

/-- Python `s.split(sep)` for a non-empty separator; arguments: characters of a matched separator still to
skip, rest of the input, current piece (reversed) -/
def splitGo (sep : List Char) : Nat → List Char → List Char → List (List Char)
  | _, [], cur => [cur.reverse]
  | skip + 1, _ :: r, cur => splitGo sep skip r cur
  | 0, c :: r, cur =>
    if sep.isPrefixOf (c :: r) then cur.reverse :: splitGo sep (sep.length - 1) r []
    else splitGo sep 0 r (c :: cur)

/-- Python `s.split(sep)`, `sep ≠ ""` -/
def pySplit (sep s : List Char) : List (List Char) :=
  if sep.isEmpty then [s] else splitGo sep 0 s []

/-- mirrors `string_parsing.eq_string_to_infix_tokens` on character lists (ASCII input) -/
def tokenizeChars (s : List Char) : Except String (List (List Char)) :=
  if bad_tokens.any (fun b => containsSub b.toList s) then throw s!"RuntimeError: {MSG_INF_COMPLEX}"
  else
    let s1 := replacements.foldl (fun acc (p : String × String) => pyReplace p.1.toList p.2.toList acc) s
    let s2 := negativeBaseSub (negativeSub s1)
    let toks := pySplit split_sep.toList (nonUnarySub s2)
    pure ((toks.filter (fun t => !t.isEmpty)).map lowerAscii)

/-- mirrors `string_parsing.eq_string_to_infix_tokens` -/
def tokenize (s : String) : Except String (List String) :=
  let cs := s.toList
  if cs.any (fun c => c.toNat ≥ 128) then throw "ModelDomain: non-ASCII input"
  else (tokenizeChars cs).map (·.map String.ofList)

/-! ## Shunting-yard: `infix_to_postfix` -/

/-- `precedence[token]` (only called on members of `operators`) -/
def prec (t : String) : Nat := (precedence.lookup t).getD 0

/-- the `while` loop of the operator branch of `infix_to_postfix`; `out` is the output reversed -/
def popOps (tok : String) : List String → List String → List String × List String
  | [], out => ([], out)
  | top :: st, out =>
    if operators.contains top &&
        (prec top > prec tok || (prec top == prec tok && tok != RIGHT_ASSOC)) then
      popOps tok st (top :: out)
    else (top :: st, out)

/-- the `while len(stack) > 0 and stack[-1] != "("` loop of the `")"` branch of `infix_to_postfix` -/
def popToParen : List String → List String → List String × List String
  | [], out => ([], out)
  | top :: st, out => if top != LPAREN then popToParen st (top :: out) else (top :: st, out)

/-- the final `while len(stack) > 0` loop of `infix_to_postfix` -/
def drainStack : List String → List String → Except String (List String)
  | [], out => pure out
  | top :: st, out =>
    if top == LPAREN then throw s!"RuntimeError: {MSG_PAREN}" else drainStack st (top :: out)

/-- the `for token in infix_tokens` loop of `infix_to_postfix` -/
def shunt : List String → List String → List String → Except String (List String)
  | [], stack, out => drainStack stack out
  | tok :: rest, stack, out =>
    if operators.contains tok then
      let (st, out') := popOps tok stack out
      shunt rest (tok :: st) out'
    else if tok == LPAREN || functions.contains tok then shunt rest (tok :: stack) out
    else if tok == RPAREN then
      match popToParen stack out with
      | ([], _) => throw s!"RuntimeError: {MSG_PAREN}"
      | (top :: st, out') =>
        if top != LPAREN then throw s!"RuntimeError: {MSG_PAREN}"    -- `stack.pop() != "("`
        else match st with
          | f :: st' => if functions.contains f then shunt rest st' (f :: out') else shunt rest st out'
          | [] => shunt rest st out'
    else shunt rest stack (tok :: out)

/-- mirrors `string_parsing.infix_to_postfix` -/
def infixToPostfix (toks : List String) : Except String (List String) :=
  (shunt toks [] []).map List.reverse

/-! ## Token classification: `re.fullmatch`, `int`, `float` -/

/-- `int_pattern.fullmatch(token)` with `int_pattern = \d+` -/
def matchInt (t : List Char) : Bool := !t.isEmpty && t.all isReDigit

/-- `var_or_const_pattern.fullmatch(token).groups()` with `var_or_const_pattern = ([XC])_(\d+)`, IGNORECASE -/
def matchVarOrConst : List Char → Option (Char × List Char)
  | c :: '_' :: ds =>
    if (c == 'X' || c == 'x' || c == 'C' || c == 'c') && matchInt ds then some (c, ds) else none
  | _ => none

/-- value of a string of ASCII decimal digits -/
def digitsToNat (ds : List Char) : Nat := ds.foldl (fun acc d => acc * 10 + (d.toNat - '0'.toNat)) 0

/-- CPython's `sys.get_int_max_str_digits()` default -/
def intMaxStrDigits : Nat := 4300

/-- Python `int(s)` for a string of ASCII digits (CPython ≥ 3.11 refuses more than 4300 digits, counting
leading zeros) -/
def pyInt (ds : List Char) : Except String Int :=
  if ds.length > intMaxStrDigits then
    throw "ValueError: Exceeds the limit (4300 digits) for integer string conversion"
  else pure (digitsToNat ds : Nat)

/-- the underscore pass of CPython's `_Py_string_to_number_with_underscores`: an underscore must stand
between two digits; returns the string without underscores; `prev = none` at the start -/
def stripUnderscores : Option Char → List Char → Option (List Char)
  | prev, [] => if prev == some '_' then none else some []
  | prev, c :: r =>
    if c == '_' then
      match prev with
      | some p => if isReDigit p then stripUnderscores (some c) r else none
      | none => none
    else if prev == some '_' && !isReDigit c then none
    else (stripUnderscores (some c) r).map (c :: ·)

/-- consume a maximal run of digits: (number consumed, rest) -/
def spanDigits : List Char → Nat × List Char
  | [] => (0, [])
  | c :: r => if isReDigit c then let (n, rest) := spanDigits r; (n + 1, rest) else (0, c :: r)

/-- optional sign -/
def dropSign : List Char → List Char
  | '+' :: r => r
  | '-' :: r => r
  | s => s

/-- `[eE][+-]?\d+` or nothing, to the end of the string -/
def isExponentOrEnd : List Char → Bool
  | [] => true
  | c :: r =>
    if c == 'e' || c == 'E' then
      let (n, rest) := spanDigits (dropSign r)
      n > 0 && rest.isEmpty
    else false

/-- the finite decimal literals of C `strtod` as used by CPython (`_Py_dg_strtod`), sign removed:
`(\d+(\.\d*)?|\.\d+)([eE][+-]?\d+)?` -/
def isDecimalLiteral (s : List Char) : Bool :=
  let (n1, r1) := spanDigits s
  match r1 with
  | '.' :: r2 =>
    let (n2, r3) := spanDigits r2
    (n1 + n2 > 0) && isExponentOrEnd r3
  | _ => n1 > 0 && isExponentOrEnd r1

/-- CPython `_Py_parse_inf_or_nan`, sign removed: `inf`, `infinity`, `nan` in any case -/
def isInfOrNan (s : List Char) : Bool :=
  let l := String.ofList (lowerAscii s)
  l == "inf" || l == "infinity" || l == "nan"

/-- does Python `float(token)` succeed (ASCII token)?  [underscore pass; strip C whitespace;
`[+-]?(decimal | inf | infinity | nan)`] -/
def pyFloatOk (t : List Char) : Bool :=
  let t1? := if t.contains '_' then stripUnderscores none t else some t
  match t1? with
  | none => false
  | some t1 =>
    let t2 := ((t1.dropWhile isCSpace).reverse.dropWhile isCSpace).reverse
    let body := dropSign t2
    isDecimalLiteral body || isInfOrNan body

/-! ## Postfix evaluation: `postfix_to_command_array_and_constants` -/

/-- loop state of `postfix_to_command_array_and_constants` (`i = len(command_array)`,
`command_to_i[c]` = position of `c` in `cmds`, `n_constants = len(constants)`) -/
structure PState where
  stack : List Nat := []        -- top at the head
  cmds : List Cmd := []
  consts : List String := []
  deriving Repr

/-- `operator_map[key]` -/
def opMap (key : String) : Except String Int :=
  match operator_map.lookup key with
  | some v => pure v
  | none => throw s!"KeyError: '{key}'"

/-- the `if tuple(command) in command_to_i … else …` tail of the loop body -/
def pushCommand (st : PState) (stack : List Nat) (consts : List String) (c : Cmd) : PState :=
  match st.cmds.findIdx? (· == c) with
  | some j => { stack := j :: stack, cmds := st.cmds, consts := consts }
  | none => { stack := st.cmds.length :: stack, cmds := st.cmds ++ [c], consts := consts }

/-- one iteration of the `for token in postfix_tokens` loop -/
def postfixStep (st : PState) (token : String) : Except String PState :=
  if operators.contains token then
    match st.stack with
    | b :: a :: rest => do                 -- `operands = stack.pop(), stack.pop()`
      let node ← opMap token
      pure (pushCommand st rest st.consts ⟨node, a, b⟩)
    | _ => throw "IndexError: pop from empty list"
  else if functions.contains token then
    match st.stack with
    | a :: rest => do
      let node ← opMap token
      pure (pushCommand st rest st.consts ⟨node, a, a⟩)
    | [] => throw "IndexError: pop from empty list"
  else
    let t := token.toList
    match matchVarOrConst t with
    | some (g0, g1) => do
      let node ← opMap (String.ofList [g0])
      let k ← pyInt g1
      pure (pushCommand st st.stack st.consts ⟨node, k, k⟩)
    | none =>
      if matchInt t then do
        let k ← pyInt t
        pure (pushCommand st st.stack st.consts ⟨NODE_INTEGER, k, k⟩)
      else if pyFloatOk t then
        let n : Int := (st.consts.length : Nat)
        pure (pushCommand st st.stack (st.consts ++ [token]) ⟨NODE_CONSTANT, n, n⟩)
      else do
        let msg ← pyFormat MSG_UNKNOWN_TOKEN [token]
        throw s!"RuntimeError: {msg}"

/-- the `for token in postfix_tokens` loop -/
def postfixLoop : List String → PState → Except String PState
  | [], st => pure st
  | t :: rest, st => do
    let st' ← postfixStep st t
    postfixLoop rest st'

/-- does the value fit the C `long` of `np.array(command_array, dtype=int)` (64-bit platforms)? -/
def fitsInt64 (v : Int) : Bool := -9223372036854775808 ≤ v && v ≤ 9223372036854775807

/-- mirrors `string_parsing.postfix_to_command_array_and_constants`; constants are returned as the
tokens handed to `float(token)` -/
def postfixToCommands (toks : List String) : Except String (Stack × List String) := do
  if toks.any (fun t => t.toList.any (fun c => c.toNat ≥ 128)) then throw "ModelDomain: non-ASCII input"
  let st ← postfixLoop toks {}
  if st.stack.length > 1 then throw s!"RuntimeError: {MSG_POSTFIX}"
  if st.cmds.all (fun c => fitsInt64 c.node && fitsInt64 c.p1 && fitsInt64 c.p2) then pure (st.cmds, st.consts)
  else throw "OverflowError: Python int too large to convert to C long"

/-- mirrors `string_parsing.eq_string_to_command_array_and_constants` -/
def parse (s : String) : Except String (Stack × List String) := do
  let inToks ← tokenize s
  let postToks ← infixToPostfix inToks
  postfixToCommands postToks

end Str
end Bingo
