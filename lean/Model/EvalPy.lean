import Model.Eval
/-!
# Evaluation backend, Python-object level

The same sweeps as `Model/Eval.lean`, but every value carries the *kind* of Python object it is
(`py` = Python float/int, `np` = numpy scalar, `col` = (M,1) column), because the one
arithmetic exception the backend can raise (`ZeroDivisionError`) happens exactly when both
operands of `/` are Python floats and the divisor is zero.  Errors are classified as
`zerodiv` (an `ArithmeticError`, which `AGraph` catches) or `other`
(IndexError/TypeError/KeyError, which propagate).
-/
namespace Bingo

inductive Kind where
  | py | np | col
  deriving Repr, DecidableEq, Inhabited

inductive PyErr where
  | zerodiv | other
  deriving Repr, DecidableEq, Inhabited

namespace Kind
def join : Kind → Kind → Kind
  | col, _ => col
  | _, col => col
  | py, py => py
  | _, _ => np
/-- result kind of a numpy ufunc -/
def viaNumpy : Kind → Kind
  | col => col
  | _ => np
end Kind

abbrev KVal (α : Type) := Kind × α

structure RuleCtxK (α : Type) where
  intParam : α
  loadX : Except PyErr (KVal α)
  loadC : Except PyErr (KVal α)
  fwd : Ref → Except PyErr (KVal α)
  rev : Except PyErr (KVal α)

namespace RExpr
variable {α : Type} [Scalar α]

def interpK (isZero : α → Bool) (cx : RuleCtxK α) : RExpr → Except PyErr (KVal α)
  | intParam => pure (.py, cx.intParam)
  | loadX => cx.loadX
  | loadC => cx.loadC
  | fwd r => cx.fwd r
  | rev => cx.rev
  | lit n d => pure (.py, Scalar.div (Scalar.ofInt n) (Scalar.ofInt (Int.ofNat d)))
  | add a b => do let x ← a.interpK isZero cx; let y ← b.interpK isZero cx; pure (x.1.join y.1, Scalar.add x.2 y.2)
  | sub a b => do let x ← a.interpK isZero cx; let y ← b.interpK isZero cx; pure (x.1.join y.1, Scalar.sub x.2 y.2)
  | mul a b => do let x ← a.interpK isZero cx; let y ← b.interpK isZero cx; pure (x.1.join y.1, Scalar.mul x.2 y.2)
  | div a b => do
      let x ← a.interpK isZero cx; let y ← b.interpK isZero cx
      if x.1 = .py ∧ y.1 = .py ∧ isZero y.2 then throw .zerodiv
      else pure (x.1.join y.1, Scalar.div x.2 y.2)
  | pow a b => do let x ← a.interpK isZero cx; let y ← b.interpK isZero cx; pure ((x.1.join y.1).viaNumpy, Scalar.pow x.2 y.2)
  | un f a => do let x ← a.interpK isZero cx; pure (x.1.viaNumpy, f.apply x.2)
  | unsupported _ => throw .other

end RExpr

namespace EvalPy
variable {α : Type} [Scalar α]

def optE {β : Type} : Option β → Except PyErr β
  | some b => pure b
  | none => throw .other

def lookupFwd (N : Nat) (acc : List (KVal α)) (p : Int) : Except PyErr (KVal α) :=
  optE ((pyIdx N p).bind (acc[·]?))

def fwdCtx (N : Nat) (x : List α) (c : List (KVal α)) (acc : List (KVal α)) (cmd : Cmd) : RuleCtxK α :=
  { intParam := Scalar.ofInt cmd.p1
    loadX := optE (((pyIdx x.length cmd.p1).bind (x[·]?)).map (fun v => (Kind.col, v)))
    loadC := optE ((pyIdx c.length cmd.p1).bind (c[·]?))
    fwd := fun r => match r with
      | .p1 => lookupFwd N acc cmd.p1
      | .p2 => lookupFwd N acc cmd.p2
      | .self => throw .other
    rev := throw .other }

def fwdRow (isZero : α → Bool) (N : Nat) (x : List α) (c acc : List (KVal α)) (cmd : Cmd) :
    Except PyErr (KVal α) :=
  match Eval.fwdRule cmd.node with
  | none => throw .other
  | some rule => rule.interpK isZero (fwdCtx N x c acc cmd)

def fwdAux (isZero : α → Bool) (N : Nat) (x : List α) (c : List (KVal α)) :
    List Cmd → List (KVal α) → Except PyErr (List (KVal α))
  | [], acc => pure acc
  | cmd :: rest, acc => do
    let v ← fwdRow isZero N x c acc cmd
    fwdAux isZero N x c rest (acc ++ [v])

def fwd (isZero : α → Bool) (s : Stack) (x : List α) (c : List (KVal α)) : Except PyErr (List (KVal α)) :=
  fwdAux isZero s.length x c s []

/-- `evaluate(stack, x, constants)` at one data row: `forward_eval[-1]` (then broadcast) -/
def evaluate (isZero : α → Bool) (s : Stack) (x : List α) (c : List (KVal α)) : Except PyErr (KVal α) := do
  let fw ← fwd isZero s x c
  optE fw.getLast?

/-! reverse sweep -/

def revCtx (N : Nat) (fw radj : List (KVal α)) (i : Nat) (cmd : Cmd) : RuleCtxK α :=
  { intParam := Scalar.ofInt cmd.p1
    loadX := throw .other
    loadC := throw .other
    fwd := fun r => match r with
      | .p1 => optE ((pyIdx N cmd.p1).bind (fw[·]?))
      | .p2 => optE ((pyIdx N cmd.p2).bind (fw[·]?))
      | .self => optE fw[i]?
    rev := optE radj[i]? }

def applyStmt (isZero : α → Bool) (N : Nat) (fw : List (KVal α)) (i : Nat) (cmd : Cmd)
    (radj : List (KVal α)) (st : RevStmt) : Except PyErr (List (KVal α)) := do
  -- Python evaluates the right-hand side of `a[j] += e` after loading a[j]; both raise `other`
  let j ← optE (Eval.refIdx N i cmd st.target)
  let old ← optE radj[j]?
  let v ← st.expr.interpK isZero (revCtx N fw radj i cmd)
  let new : KVal α := match st.mode with
    | .addTo => (old.1.join v.1, Scalar.add old.2 v.2)
    | .subFrom => (old.1.join v.1, Scalar.sub old.2 v.2)
    | .assign => v
  pure (radj.set j new)

def applyStmts (isZero : α → Bool) (N : Nat) (fw : List (KVal α)) (i : Nat) (cmd : Cmd) :
    List RevStmt → List (KVal α) → Except PyErr (List (KVal α))
  | [], radj => pure radj
  | st :: rest, radj => do
    let r ← applyStmt isZero N fw i cmd radj st
    applyStmts isZero N fw i cmd rest r

def revStep (isZero : α → Bool) (s : Stack) (wrt : Int) (fw : List (KVal α)) (i : Nat)
    (st : List (KVal α) × List α) : Except PyErr (List (KVal α) × List α) := do
  let cmd ← optE s[i]?
  if cmd.node = wrt then
    let j ← optE (pyIdx st.2.length cmd.p1)
    let old ← optE st.2[j]?
    let r ← optE st.1[i]?
    pure (st.1, st.2.set j (Scalar.add old r.2))
  else
    let stmts ← optE (Eval.revRule cmd.node)
    let r ← applyStmts isZero s.length fw i cmd stmts st.1
    pure (r, st.2)

def revSweep (isZero : α → Bool) (s : Stack) (wrt : Int) (fw : List (KVal α)) :
    Nat → List (KVal α) × List α → Except PyErr (List (KVal α) × List α)
  | 0, st => pure st
  | k+1, st => do
    let st' ← revStep isZero s wrt fw k st
    revSweep isZero s wrt fw k st'

def rev (isZero : α → Bool) (s : Stack) (wrt : Int) (ncols : Nat) (fw : List (KVal α)) :
    Except PyErr (List α) :=
  match s.length with
  | 0 => throw .other
  | n+1 => do
    let radj0 : List (KVal α) := List.replicate n (Kind.py, Eval.zero) ++ [(Kind.py, Eval.one)]
    let r ← revSweep isZero s wrt fw (n+1) (radj0, List.replicate ncols Eval.zero)
    pure r.2

def evalWithDeriv (isZero : α → Bool) (s : Stack) (x : List α) (c : List (KVal α)) (wrtX : Bool) :
    Except PyErr (KVal α × List α) := do
  let fw ← fwd isZero s x c
  let last ← optE fw.getLast?
  let d ← if wrtX then rev isZero s Gen.OpDefs.VARIABLE x.length fw
          else rev isZero s Gen.OpDefs.CONSTANT c.length fw
  pure (last, d)

end EvalPy

end Bingo
