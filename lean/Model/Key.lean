/-!
# NaN-aware keys

A fitness / key is a Python float.  Non-NaN floats (including ±inf, with `-0.0 == 0.0`) embed
order-preservingly into `Int` (the harness does that from the bit pattern), NaN is `none`.
Comparisons involving NaN are false, exactly as Python's.
-/
namespace Bingo

abbrev Key := Option Int

namespace Key
def isNan (a : Key) : Bool := a.isNone
def lt : Key → Key → Bool
  | some x, some y => decide (x < y)
  | _, _ => false
def le : Key → Key → Bool
  | some x, some y => decide (x ≤ y)
  | _, _ => false
def gt (a b : Key) : Bool := lt b a
def ge (a b : Key) : Bool := le b a
/-- Python `!=` on floats: NaN != anything is True -/
def ne : Key → Key → Bool
  | some x, some y => decide (x ≠ y)
  | _, _ => true
/-- Python `==` on floats -/
def eq : Key → Key → Bool
  | some x, some y => decide (x = y)
  | _, _ => false
end Key

end Bingo
