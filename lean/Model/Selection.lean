import Model.Key
import Model.BestScan
/-!
# `selection/*.py`

Individuals are `(key, age, id)`.  All random choices are oracle inputs (logged from the real
code at the level bingo calls them): the index lists returned by `_get_unique_rand_indices`,
the samples of `np.random.choice`, the comparison `np.random.random() < prob`.
-/
namespace Bingo
namespace Sel

structure Indv where
  key : Key
  age : Nat
  id : Nat
  deriving Repr, DecidableEq, Inhabited

/-- `AgeFitness._first_not_dominated(first, second)` -/
def firstNotDominated (a b : Indv) : Bool :=
  !(decide (a.age > b.age) || Key.gt a.key b.key)

/-- `_streamlined_pair_removal` -/
def pairRemoval (pop : List Indv) (i1 i2 : Nat) : Option (List Nat) :=
  match pop[i1]?, pop[i2]? with
  | some a, some b =>
    if a.key.isNan then some [i1]
    else if b.key.isNan then some [i2]
    else if firstNotDominated a b then some [i2]
    else if firstNotDominated b a then some [i1]
    else some []
  | _, _ => none

def setAdd (s : List Nat) (i : Nat) : List Nat := if s.contains i then s else s ++ [i]

/-- `_update_removal_set` -/
def updateRemovalSet (pop : List Indv) (i1 i2 : Nat) (rs : List Nat) : Option (List Nat) :=
  match pop[i1]?, pop[i2]? with
  | some a, some b =>
    if a.key.isNan then some (setAdd rs i1)
    else if b.key.isNan then some (setAdd rs i2)
    else if firstNotDominated a b then some (setAdd rs i2)
    else if firstNotDominated b a then some (setAdd rs i1)
    else some rs
  | _, _ => none

/-- inner loop over `ind_b in inds[i+1:]`; `Sum.inl` = early return -/
def innerLoop (pop : List Indv) (needed : Nat) (a : Nat) :
    List Nat → List Nat → Option (Sum (List Nat) (List Nat))
  | [], rs => some (.inr rs)
  | b :: rest, rs =>
    if rs.contains b then innerLoop pop needed a rest rs
    else
      match updateRemovalSet pop a b rs with
      | none => none
      | some rs' =>
        if rs'.length ≥ needed then some (.inl rs')
        else innerLoop pop needed a rest rs'

/-- outer loop over `enumerate(inds[:-1])` -/
def outerLoop (pop : List Indv) (needed : Nat) : List Nat → List Nat → Option (List Nat)
  | [], rs => some rs
  | [_], rs => some rs
  | a :: rest, rs =>
    if rs.contains a then outerLoop pop needed rest rs
    else
      match innerLoop pop needed a rest rs with
      | none => none
      | some (.inl rs') => some rs'
      | some (.inr rs') => outerLoop pop needed rest rs'

/-- `_find_inds_for_removal` -/
def findRemovals (selSize : Nat) (inds : List Nat) (pop : List Indv) (needed : Nat) : Option (List Nat) :=
  if selSize = 2 then
    match inds with
    | i1 :: i2 :: _ => pairRemoval pop i1 i2
    | _ => none
  else outerLoop pop needed inds []

def swap {β : Type} (l : List β) (i j : Nat) : Option (List β) :=
  match l[i]?, l[j]? with
  | some a, some b => some ((l.set i b).set j a)
  | _, _ => none

/-- descending insertion sort (`sorted(inds, reverse=True)`) -/
def insertDesc (x : Nat) : List Nat → List Nat
  | [] => [x]
  | y :: ys => if x ≥ y then x :: y :: ys else y :: insertDesc x ys
def sortDesc (l : List Nat) : List Nat := l.foldr insertDesc []

/-- `_swap_removals_to_end(population, inds_to_remove, num_removed)` -/
def swapRemovalsToEnd (pop : List Indv) (rem : List Nat) (nRemoved : Nat) : Option (List Indv) :=
  let rec go (pop : List Indv) (i : Nat) : List Nat → Option (List Indv)
    | [] => some pop
    | ind :: rest =>
      -- Python index -(i+num_removed+1)
      if i + nRemoved + 1 ≤ pop.length then
        match swap pop ind (pop.length - (i + nRemoved + 1)) with
        | none => none
        | some p => go p (i+1) rest
      else none
  go pop 0 (sortDesc rem)

structure AFResult where
  pop : List Indv        -- the whole (permuted) list
  kept : Nat             -- `new_pop_size`
  rounds : Nat
  removedLog : List (List Nat)   -- ids removed per round
  deriving Repr

/-- the `while` loop of `AgeFitness.__call__`; `draws` = the index lists returned by
`_get_unique_rand_indices` in order.  `none` = ran out of draws / Python raises. -/
def afLoop (selSize start targetRemoval factor : Nat) :
    Nat → List Indv → Nat → Nat → List (List Nat) → List (List Nat) → Option AFResult
  | 0, _, _, _, _, _ => none
  | fuel+1, pop, nRemoved, attempts, draws, log =>
    if nRemoved < targetRemoval ∧ attempts < start * factor then
      match draws with
      | [] => none
      | inds :: rest =>
        match findRemovals selSize inds pop (targetRemoval - nRemoved) with
        | none => none
        | some rem =>
          match swapRemovalsToEnd pop rem nRemoved with
          | none => none
          | some pop' =>
            afLoop selSize start targetRemoval factor fuel pop' (nRemoved + rem.length) (attempts + 1) rest
              (log ++ [rem.filterMap fun i => (pop[i]?).map (·.id)])
    else some { pop := pop, kept := start - nRemoved, rounds := attempts, removedLog := log }

/-- `AgeFitness.__call__(population, target)`; `none` also for `target > len(population)` (ValueError) -/
def ageFitness (selSize factor : Nat) (pop : List Indv) (target : Nat) (draws : List (List Nat)) : Option AFResult :=
  if target > pop.length then none
  else afLoop selSize pop.length (pop.length - target) factor (pop.length * factor + 1) pop 0 0 draws []

/-! ## tournament -/

/-- one tournament: `min(tournament_members, key=fitness)` over the sampled members -/
def tournamentWinner (pop : List Indv) (sample : List Nat) : Option Indv :=
  match sample.mapM (pop[·]?) with
  | none => none
  | some members => (BestScan.pyMinBy (members.map fun m => (m.key, m))).map (·.2)

def tournament (pop : List Indv) (samples : List (List Nat)) : Option (List Indv) :=
  samples.mapM (tournamentWinner pop)

/-! ## crowding -/

/-- `DeterministicCrowding._return_most_fit(child, parent)` -/
def detMostFit (child parent : Indv) : Indv :=
  if child.key.isNan then parent
  else if parent.key.isNan then child
  else if Key.lt child.key parent.key then child else parent

/-- `GeneralizedCrowding.__call__`; `closer i` = `dist_a <= dist_b` for pair `i`;
`pick child parent k` = `_return_most_fit` (the `k`-th call) -/
def crowding (pick : Indv → Indv → Nat → Indv) (closer : Nat → Bool)
    (population : List Indv) (target : Nat) : Option (List Indv) :=
  if population.length % 2 > 0 ∨ target % 2 > 0 then none
  else
    let half := population.length / 2
    if target > half then none
    else
      let parents := population.take half
      let offspring := population.drop half
      let rec go (i : Nat) (fuel : Nat) (cur : List Indv) : Option (List Indv) :=
        match fuel with
        | 0 => some cur
        | fuel+1 =>
          match cur[2*i]?, cur[2*i+1]?, offspring[2*i]?, offspring[2*i+1]? with
          | some p1, some p2, some c1, some c2 =>
            let (a, b) := if closer i then (pick c1 p1 (2*i), pick c2 p2 (2*i+1))
                          else (pick c2 p1 (2*i), pick c1 p2 (2*i+1))
            go (i+1) fuel ((cur.set (2*i) a).set (2*i+1) b)
          | _, _, _, _ => none
      go 0 (target / 2) parents

def detCrowding (closer : Nat → Bool) (population : List Indv) (target : Nat) : Option (List Indv) :=
  crowding (fun c p _ => detMostFit c p) closer population target

/-- `GeneralizedCrowding.__call__` returns `population[:target_population_size]` of the list built above -/
def detCrowdingCall (closer : Nat → Bool) (population : List Indv) (target : Nat) : Option (List Indv) :=
  (detCrowding closer population target).map (·.take target)

/-! ## probabilistic operators

The random numbers are oracle inputs: `coin k` is the outcome of `np.random.random() < prob` in the `k`-th call of
`ProbabilisticCrowding._return_most_fit`; `index` is what `np.searchsorted(np.cumsum(weights), rand)` returned in
`ProbabilisticTournament._probabilistic_model_selection`. -/

/-- `ProbabilisticCrowding._return_most_fit(child, parent)` -/
def probMostFit (coin : Nat → Bool) (child parent : Indv) (k : Nat) : Indv :=
  if parent.key.isNan then child
  else if child.key.isNan then parent
  else if coin k then child else parent

/-- `ProbabilisticCrowding.__call__` (inherits `GeneralizedCrowding.__call__`) -/
def probCrowdingCall (coin : Nat → Bool) (closer : Nat → Bool) (population : List Indv) (target : Nat) :
    Option (List Indv) :=
  (crowding (probMostFit coin) closer population target).map (·.take target)

/-- `np.searchsorted(cs, r)` (side = left) on a non-decreasing list: the number of entries `< r` -/
def searchLeft (cs : List Nat) (r : Nat) : Nat := (cs.filter (· < r)).length

/-- `np.cumsum` -/
def cumsum : List Nat → List Nat
  | [] => []
  | a :: rest => a :: (cumsum rest).map (a + ·)

/-- one probabilistic tournament: all members NaN -> the first member; otherwise `potential_models[index]` -/
def probTournamentWinner (pop : List Indv) (sample : List Nat) (index : Nat) : Option Indv :=
  match sample.mapM (pop[·]?) with
  | none => none
  | some members => if members.all (·.key.isNan) then members[0]? else members[index]?

def probTournament (pop : List Indv) (samples : List (List Nat × Nat)) : Option (List Indv) :=
  samples.mapM fun p => probTournamentWinner pop p.1 p.2

end Sel
end Bingo
