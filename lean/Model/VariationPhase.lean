import Model.Pipeline
/-!
# The variation phase: `VarAnd`, `VarOr`, `AddRandomIndividuals` over `Pipeline.Indiv`

`variation/var_and.py`, `variation/var_or.py`, `variation/add_random_individuals.py`, and small
models of `SinglePointCrossover` / `SinglePointMutation` (`chromosomes/multiple_values.py`).
The verbatim text of the modelled methods is pinned in `Gen.Phases` (`varAndCrossoverPopulation`,
`varAndMutatePopulation`, `varOrCall`, ...).

* the operators are parameters: `crossover : Indiv → Indiv → Nat → Indiv × Indiv`,
  `mutation : Indiv → Nat → Indiv` (the `Nat` is the operator's own random draw), and a generator
  `gen : Nat → Indiv` of new individuals;
* every random draw of the variation itself is an oracle input: `np.random.random() <= p` is a
  `Bool`, `np.random.randint(len(population))` is a `Nat` reduced modulo the length (so every value
  of the `Nat` is a legal draw and every legal draw is covered), the three-way branch of `VarOr` is a
  `Choice`.  A draw list that is too short is continued with the default draw (no crossover / no
  mutation / replication of parent 0); the theorems hold for every list.
* values, not objects: `copy()` (`copy.deepcopy`) is the identity on values.
* `population[k]` is `nth`: total, with a default for the empty population (where the Python code
  raises `ZeroDivisionError` / `ValueError`); the theorems assume a non-empty population.

Only the containers and the four attributes of `Indiv` are modelled; the bookkeeping attributes
(`offspring_parents`, `crossover_offspring_type`, `mutation_offspring_type`) are not.
-/
namespace Bingo
namespace VarPhase
open Pipeline

/-- `Chromosome.copy`: `copy.deepcopy(self)` keeps genome, `_fitness`, `_fit_set`, `_genetic_age` -/
def copy (i : Indiv) : Indiv := i

/-- `population[k]` for an index that was already reduced modulo `len(population)` -/
def nth (pop : List Indiv) (k : Nat) : Indiv := pop.getD k default

/-! ## `VarAnd` -/

/-- one iteration of the loop of `_crossover_population`: the two offspring of loop variable `i`;
`d.1` is `np.random.random() <= self._crossover_probability`, `d.2` the draw of the crossover -/
def crossPair (crossover : Indiv → Indiv → Nat → Indiv × Indiv) (pop : List Indiv) (i : Nat)
    (d : Bool × Nat) : List Indiv :=
  let parentIndex1 := i % pop.length
  let parentIndex2 := (parentIndex1 + 1) % pop.length
  if d.1 then
    let c := crossover (nth pop parentIndex1) (nth pop parentIndex2) d.2
    [c.1, c.2]
  else
    [copy (nth pop parentIndex1), copy (nth pop parentIndex2)]

/-- `for i in range(0, number_offspring - 1, 2)`: the loop runs while `i < number_offspring - 1`
(over the integers, i.e. `i + 1 < n`); `fuel` bounds the number of iterations -/
def crossLoop (crossover : Indiv → Indiv → Nat → Indiv × Indiv) (pop : List Indiv) (n : Nat) :
    Nat → Nat → List (Bool × Nat) → List Indiv
  | 0, _, _ => []
  | fuel + 1, i, ds =>
    if i + 1 < n then
      crossPair crossover pop i (ds.headD (false, 0)) ++ crossLoop crossover pop n fuel (i + 2) ds.tail
    else []

/-- `VarAnd._crossover_population(number_offspring, population)` -/
def crossoverPopulation (crossover : Indiv → Indiv → Nat → Indiv × Indiv) (pop : List Indiv)
    (n : Nat) (ds : List (Bool × Nat)) : List Indiv :=
  let offspring := crossLoop crossover pop n n 0 ds
  if offspring.length < n then
    let parentIndex1 := (offspring.length + 1) % pop.length
    offspring ++ [copy (nth pop parentIndex1)]
  else offspring

/-- `VarAnd._mutate_population(offspring)`: `offspring[i] = self._mutation(parent)` replaces the
slot the enumeration is at, so the loop is a map with one draw per slot -/
def mutatePopulation (mutation : Indiv → Nat → Indiv) : List Indiv → List (Bool × Nat) → List Indiv
  | [], _ => []
  | parent :: rest, ds =>
    let d := ds.headD (false, 0)
    (if d.1 then mutation parent d.2 else parent) :: mutatePopulation mutation rest ds.tail

/-- `VarAnd.__call__(population, number_offspring)`; `cx` / `mu` are the draws of the two loops -/
def varAnd (crossover : Indiv → Indiv → Nat → Indiv × Indiv) (mutation : Indiv → Nat → Indiv)
    (pop : List Indiv) (n : Nat) (cx mu : List (Bool × Nat)) : List Indiv :=
  mutatePopulation mutation (crossoverPopulation crossover pop n cx) mu

/-! ## `VarOr` -/

/-- the branch `choice = np.random.rand()` selects in `VarOr.__call__` -/
inductive Choice where
  | mutation       -- choice <= mutation_probability
  | crossover      -- choice <= mutation_probability + crossover_probability
  | replication    -- otherwise
  deriving Repr, DecidableEq, Inhabited

/-- the draws of one iteration of `VarOr.__call__`: the branch, the two `randint`s of
`_get_random_parent` (the second is used by the crossover branch only), the operator's draw -/
structure OrDraw where
  choice : Choice
  parent1 : Nat
  parent2 : Nat
  op : Nat
  deriving Repr, DecidableEq

instance : Inhabited OrDraw := ⟨⟨.replication, 0, 0, 0⟩⟩

/-- `VarOr._get_random_parent(population)`: `population[np.random.randint(len(population))]` -/
def getRandomParent (pop : List Indiv) (r : Nat) : Indiv := nth pop (r % pop.length)

/-- `VarOr._append_new_individual_to_offspring(child, offspring)`:
`child.fit_set = False ; offspring.append(child)` -/
def appendNew (child : Indiv) (offspring : List Indiv) : List Indiv :=
  offspring ++ [{ child with flag := false }]

/-- `VarOr._do_mutation` -/
def doMutation (mutation : Indiv → Nat → Indiv) (pop offspring : List Indiv) (d : OrDraw) : List Indiv :=
  let parent := getRandomParent pop d.parent1
  let mutant := mutation parent d.op
  appendNew mutant offspring

/-- `VarOr._do_crossover`: the second child is dropped -/
def doCrossover (crossover : Indiv → Indiv → Nat → Indiv × Indiv) (pop offspring : List Indiv)
    (d : OrDraw) : List Indiv :=
  let parent1 := getRandomParent pop d.parent1
  let parent2 := getRandomParent pop d.parent2
  let child1 := (crossover parent1 parent2 d.op).1
  appendNew child1 offspring

/-- `VarOr._do_replication` -/
def doReplication (pop offspring : List Indiv) (d : OrDraw) : List Indiv :=
  let parent := getRandomParent pop d.parent1
  let child := copy parent
  appendNew child offspring

/-- the body of `for i in range(number_offspring)` -/
def orIter (crossover : Indiv → Indiv → Nat → Indiv × Indiv) (mutation : Indiv → Nat → Indiv)
    (pop offspring : List Indiv) (d : OrDraw) : List Indiv :=
  match d.choice with
  | .mutation => doMutation mutation pop offspring d
  | .crossover => doCrossover crossover pop offspring d
  | .replication => doReplication pop offspring d

/-- `for i in range(number_offspring)`, `k` iterations left -/
def orLoop (crossover : Indiv → Indiv → Nat → Indiv × Indiv) (mutation : Indiv → Nat → Indiv)
    (pop : List Indiv) : Nat → List OrDraw → List Indiv → List Indiv
  | 0, _, offspring => offspring
  | k + 1, ds, offspring =>
    orLoop crossover mutation pop k ds.tail (orIter crossover mutation pop offspring (ds.headD default))

/-- `VarOr.__call__(population, number_offspring)` -/
def varOr (crossover : Indiv → Indiv → Nat → Indiv × Indiv) (mutation : Indiv → Nat → Indiv)
    (pop : List Indiv) (n : Nat) (ds : List OrDraw) : List Indiv :=
  orLoop crossover mutation pop n ds []

/-! ## `AddRandomIndividuals` -/

/-- `AddRandomIndividuals._generate_new_pop(population)`: `k` generator calls left -/
def generateNewPop (gen : Nat → Indiv) : Nat → List Nat → List Indiv → List Indiv
  | 0, _, pop => pop
  | k + 1, ds, pop => generateNewPop gen k ds.tail (pop ++ [gen (ds.headD 0)])

/-- `AddRandomIndividuals.__call__(population, number_offspring)`; `variation` is the wrapped
variation with its own draws already supplied -/
def addRandom (variation : List Indiv → Nat → List Indiv) (gen : Nat → Indiv) (numRandIndvs : Nat)
    (pop : List Indiv) (n : Nat) (ds : List Nat) : List Indiv :=
  let children := variation pop n
  generateNewPop gen numRandIndvs ds children

/-- a new chromosome: `Chromosome.__init__(genetic_age=0, fitness=None, fit_set=False)`
(`MultipleValueChromosome(values)` calls `super().__init__()`) -/
def newChromosome (genome : Nat) : Indiv := ⟨genome, none, false, 0⟩

/-! ## the operators of `chromosomes/multiple_values.py` -/

/-- `MultipleValueChromosome`: the genome is the list `values` -/
structure MVChrom where
  values : List Nat
  fit : Option Key
  flag : Bool
  age : Nat
  deriving Repr, DecidableEq, Inhabited

/-- `SinglePointCrossover.__call__(parent_1, parent_2)`; `r` is the draw behind
`np.random.randint(len(parent_1.values))` (the Python code raises for an empty `values`; here the
point is then 0) -/
def svCrossover (parent1 parent2 : MVChrom) (r : Nat) : MVChrom × MVChrom :=
  let child1 := parent1                       -- parent_1.copy()
  let child2 := parent2                       -- parent_2.copy()
  let child1 := { child1 with flag := false } -- child_1.fit_set = False
  let child2 := { child2 with flag := false } -- child_2.fit_set = False
  let crossoverPoint := r % parent1.values.length
  let child1 := { child1 with
    values := parent1.values.take crossoverPoint ++ parent2.values.drop crossoverPoint }
  let child2 := { child2 with
    values := parent2.values.take crossoverPoint ++ parent1.values.drop crossoverPoint }
  let age := if parent1.age > parent2.age then parent1.age else parent2.age
  ({ child1 with age := age }, { child2 with age := age })

/-- `SinglePointMutation.__call__(parent)`; `r` is the draw behind `np.random.randint(len(values))`
and `mutationFunction r` the value `self._mutation_function()` returns on that draw (with
`mutationFunction r = r / len` every (point, value) pair is some `r`) -/
def svMutation (mutationFunction : Nat → Nat) (parent : MVChrom) (r : Nat) : MVChrom :=
  let child := parent                         -- parent.copy()
  let child := { child with flag := false }   -- child.fit_set = False
  let mutationPoint := r % parent.values.length
  { child with values := child.values.set mutationPoint (mutationFunction r) }

/-- an `Indiv` whose genome number stands for the value list `dec genome` -/
def toMV (dec : Nat → List Nat) (i : Indiv) : MVChrom := ⟨dec i.genome, i.fit, i.flag, i.age⟩
def ofMV (enc : List Nat → Nat) (c : MVChrom) : Indiv := ⟨enc c.values, c.fit, c.flag, c.age⟩

/-- `SinglePointCrossover` as an operator on `Indiv`, for any numbering `enc`/`dec` of value lists -/
def svCrossoverI (enc : List Nat → Nat) (dec : Nat → List Nat) (p1 p2 : Indiv) (r : Nat) : Indiv × Indiv :=
  let c := svCrossover (toMV dec p1) (toMV dec p2) r
  (ofMV enc c.1, ofMV enc c.2)

/-- `SinglePointMutation` as an operator on `Indiv` -/
def svMutationI (mutationFunction : Nat → Nat) (enc : List Nat → Nat) (dec : Nat → List Nat)
    (p : Indiv) (r : Nat) : Indiv :=
  ofMV enc (svMutation mutationFunction (toMV dec p) r)

/-- a concrete numbering for the examples: decimal digits, most significant first -/
def encDigits (vs : List Nat) : Nat := vs.foldl (fun a v => a * 10 + v) 0
def decDigits (g : Nat) : List Nat := (Nat.toDigits 10 g).map fun c => c.toNat - 48

end VarPhase
end Bingo
