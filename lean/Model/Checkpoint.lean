import Model.Generated.Converge
/-!
# Checkpoint rotation in `evolve_until_convergence` (`_update_checkpoints`, `dump_to_file`,
`_remove_stale_checkpoint`) as a sequence of file-system steps

A checkpoint file is named by the generational age it was written at.  A dump is several
steps (`open "wb"` creates/truncates, the write completes, optionally `os.replace`); the
process may die between any two steps, i.e. the reachable disk states are exactly the states
after a prefix of the step sequence.  Which file `dump_to_file` opens, whether it renames,
the order of dump and removal and the retention comparison are read from `Gen.Converge`.
-/
namespace Bingo
namespace Checkpoint

inductive FName where
  | ckpt (age : Nat)         -- "<base>_<age>.pkl"
  | temp (age : Nat)         -- "<base>_<age>.pkl.tmp"
  deriving Repr, DecidableEq, Inhabited

inductive FOp where
  | openW (f : FName)        -- open(f, "wb"): f exists and is empty/partial
  | finish (f : FName)       -- dill.dump finished, file closed: f is a complete checkpoint
  | rename (src dst : FName) -- os.replace(src, dst): atomic
  | remove (f : FName)       -- os.remove(f)
  deriving Repr, DecidableEq, Inhabited

/-- disk: the files that exist, with `true` = complete and loadable -/
abbrev FS := List (FName × Bool)

def fsSet (fs : FS) (f : FName) (c : Bool) : FS := (f, c) :: fs.filter (·.1 ≠ f)
def fsDel (fs : FS) (f : FName) : FS := fs.filter (·.1 ≠ f)
def fsGet (fs : FS) (f : FName) : Option Bool := (fs.find? (·.1 = f)).map (·.2)

/-- one file-system step; `none` = the call raises (e.g. removing a file that does not exist) -/
def fsStep (fs : FS) : FOp → Option FS
  | .openW f => some (fsSet fs f false)
  | .finish f => some (fsSet fs f true)
  | .rename s d =>
    match fsGet fs s with
    | none => none
    | some c => some (fsSet (fsDel fs s) d c)
  | .remove f =>
    match fsGet fs f with
    | none => none
    | some _ => some (fsDel fs f)

def fsRun : FS → List FOp → Option FS
  | fs, [] => some fs
  | fs, op :: rest =>
    match fsStep fs op with
    | none => none
    | some fs' => fsRun fs' rest

/-- the steps of `dump_to_file("<base>_<age>.pkl")` -/
def dumpOps (age : Nat) : List FOp :=
  if Gen.Converge.dumpWritesTo = "temp" ∧ Gen.Converge.dumpRenames then
    [.openW (.temp age), .finish (.temp age), .rename (.temp age) (.ckpt age)]
  else if Gen.Converge.dumpWritesTo = "target" then
    [.openW (.ckpt age), .finish (.ckpt age)]
  else []   -- unknown shape: no dump at all (every theorem about completed checkpoints then fails)

def dumpFirst : Bool :=
  Gen.Converge.updateCheckpointsCalls.idxOf "dump_to_file" <
    Gen.Converge.updateCheckpointsCalls.idxOf "_remove_stale_checkpoint"

def tooMany (len num : Nat) : Bool :=
  if Gen.Converge.checkpointCountCmp = "gt" then decide (len > num)
  else if Gen.Converge.checkpointCountCmp = "ge" then decide (len ≥ num)
  else false

/-- one `_update_checkpoints(base, num)` at generational age `age`; returns the steps and the new
`_previous_checkpoints` -/
def roundOps (num : Option Nat) (prev : List Nat) (age : Nat) : List FOp × List Nat :=
  match num with
  | none => (dumpOps age, prev)
  | some n =>
    let prev' := prev ++ [age]
    if tooMany prev'.length n then
      match prev' with
      | old :: rest =>
        (if dumpFirst then dumpOps age ++ [.remove (.ckpt old)] else [.remove (.ckpt old)] ++ dumpOps age, rest)
      | [] => (dumpOps age, prev')
    else (dumpOps age, prev')

/-- all steps of one `evolve_until_convergence` call whose checkpoints are taken at `ages`
(`reset=True` at the start: `_previous_checkpoints = []`) -/
def callOps (num : Option Nat) : List Nat → List Nat → List FOp
  | _, [] => []
  | prev, a :: rest =>
    let r := roundOps num prev a
    r.1 ++ callOps num r.2 rest

def completeCkpts (fs : FS) : List Nat :=
  fs.filterMap fun p => match p with
    | (.ckpt a, true) => some a
    | _ => none

def ckptFiles (fs : FS) : List Nat :=
  fs.filterMap fun p => match p with
    | (.ckpt a, _) => some a
    | _ => none

end Checkpoint
end Bingo
