import Model.Generated.OpDefs
/-! arity / terminal tables (regenerated from `operator_definitions.py`), as lookups.
`none` = the Python dict raises `KeyError`. -/
namespace Bingo
namespace Ops
def isTerminal (n : Int) : Option Bool := Gen.OpDefs.isTerminalTbl.lookup n
def isArity2 (n : Int) : Option Bool := Gen.OpDefs.isArity2Tbl.lookup n
end Ops

end Bingo
