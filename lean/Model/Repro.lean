import Model.Generated.Repro
/-!
# Reproducibility of seeded fits (`symbolic_regressor.py`, `component_generator.py`,
`probability_mass_function.py`): what the seed-to-result function depends on

* `registered`: the order in which operators reach `ComponentGenerator.add_operator`, as a
  function of the operator container and of the interpreter's hash seed (a set is iterated in an
  order that is an arbitrary function of the hash seed; lists/tuples in their own order).
* `drawSample`: `ProbabilityMassFunction.draw_sample` at index level: the item at the sampled index.
-/
namespace Bingo
namespace Repro

inductive Container where
  | ordered (l : List String)        -- list / tuple
  | hashset (l : List String)        -- set: `l` is its content in sorted order
  deriving Repr

/-- insertion sort on strings (Python `sorted`) -/
def insertSorted (x : String) : List String → List String
  | [] => [x]
  | y :: ys => if x ≤ y then x :: y :: ys else y :: insertSorted x ys
def sortStrings (l : List String) : List String := l.foldr insertSorted []

/-- the operators in registration order; `perm seed` is the (arbitrary) iteration order a set has
under hash seed `seed` -/
def registered (setsSorted : Bool) (perm : Nat → List String → List String) (c : Container) (seed : Nat) : List String :=
  match c with
  | .ordered l => l
  | .hashset l => if setsSorted then sortStrings l else perm seed l

/-- the container the regressor uses when `operators=None` -/
def defaultContainer : Container :=
  if Gen.Repro.defaultOperatorsKind = "set" then .hashset Gen.Repro.defaultOperators
  else .ordered Gen.Repro.defaultOperators

/-- `draw_sample` returns `items[index]` -/
def drawSample (items : List String) (index : Nat) : Option String := items[index]?

end Repro
end Bingo
