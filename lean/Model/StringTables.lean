import Model.Generated.OpDefs
import Model.Generated.StringTablesGen
/-!
# Tables copied from `bingo/symbolic_regression/agraph/string_generation.py` and `string_parsing.py`

The dict / set / regex tables below are taken from `Gen.StringTables`, which the translator REGENERATES from
the Python source on every run; the remaining small literals (f-string pieces, messages) are copied by hand; every definition names
the Python object it mirrors.  The rest of the model (`Model/Strings.lean`) reaches the Python tables only
through this file.  Format templates are the Python `str.format` templates verbatim (`{}` = next positional
argument, `{{` / `}}` = literal braces); they are interpreted by `Bingo.Str.pyFormat`.
Node numbers come from `Gen.OpDefs` (never hard-coded).
-/
namespace Bingo
namespace Str
namespace Tables
open Gen.OpDefs

/-! ## string_generation.py -/

/-- mirrors `string_generation.STACK_PRINT_MAP` (dict order preserved) -/
def STACK_PRINT_MAP : List (Int × String) := Gen.StringTables.STACK_PRINT_MAP

/-- mirrors `string_generation.LATEX_PRINT_MAP` -/
def LATEX_PRINT_MAP : List (Int × String) := Gen.StringTables.LATEX_PRINT_MAP

/-- mirrors `string_generation.SYMPY_PRINT_MAP` -/
def SYMPY_PRINT_MAP : List (Int × String) := Gen.StringTables.SYMPY_PRINT_MAP

/-- mirrors `string_generation.CONSOLE_PRINT_MAP` -/
def CONSOLE_PRINT_MAP : List (Int × String) := Gen.StringTables.CONSOLE_PRINT_MAP

/-- the `eq_format` literals tested, in order, by the `if` chain of `string_generation.get_formatted_string`;
anything else falls into the `else` branch (console) -/
def FMT_STACK : String := "stack"
def FMT_LATEX : String := "latex"
def FMT_SYMPY : String := "sympy"

/-- f-string `f"({command_index}) <= "` of `_get_stack_element_string`, as a `str.format` template -/
def STACK_ROW_PREFIX : String := "({}) <= "
/-- f-string `f"X_{param1}"` of `_get_stack_element_string` and `_get_formatted_element_string` -/
def VARIABLE_TEMPLATE : String := "X_{}"
/-- literal `"C"` of `_get_stack_element_string` (constant without a value) -/
def STACK_CONST_NO_VALUE : String := "C"
/-- f-string `f"C_{param1} = {constants[param1]}"` of `_get_stack_element_string` -/
def STACK_CONST_TEMPLATE : String := "C_{} = {}"
/-- f-string `f"{param1} (integer)"` of `_get_stack_element_string` -/
def STACK_INTEGER_TEMPLATE : String := "{} (integer)"
/-- literal `"\n"` appended to each row by `_get_stack_element_string` -/
def STACK_ROW_SUFFIX : String := "\n"
/-- literal `"?"` of `_get_formatted_element_string` (constant without a value) -/
def CONST_NO_VALUE : String := "?"

/-! ## string_parsing.py -/

/-- mirrors the set `string_parsing.operators` -/
def operators : List String := Gen.StringTables.operators
/-- mirrors the set `string_parsing.functions` -/
def functions : List String := Gen.StringTables.functions
/-- mirrors the dict `string_parsing.precedence` -/
def precedence : List (String × Nat) := Gen.StringTables.precedence
/-- mirrors the dict `string_parsing.operator_map` -/
def operator_map : List (String × Int) := Gen.StringTables.operator_map
/-- the node constants used directly (not through `operator_map`) by `postfix_to_command_array_and_constants` -/
def NODE_INTEGER : Int := INTEGER
def NODE_CONSTANT : Int := CONSTANT

/-- regex literal of `string_parsing.var_or_const_pattern` (compiled with `re.IGNORECASE`) -/
def var_or_const_pattern : String := Gen.StringTables.var_or_const_pattern
def var_or_const_pattern_ignorecase : Bool := Gen.StringTables.var_or_const_pattern_flags == "re.IGNORECASE"
/-- regex literal of `string_parsing.int_pattern` -/
def int_pattern : String := Gen.StringTables.int_pattern
/-- regex literal of `string_parsing.non_unary_op_pattern` -/
def non_unary_op_pattern : String := Gen.StringTables.non_unary_op_pattern
/-- regex literal of `string_parsing.negative_pattern` -/
def negative_pattern : String := Gen.StringTables.negative_pattern
/-- replacement template of `negative_pattern.sub(r"-1 * \1", …)` in `eq_string_to_infix_tokens` -/
def negative_repl : String := (Gen.StringTables.subTemplates.lookup "negative_pattern").getD ""
/-- regex literal of `string_parsing.negative_base_pattern` (`-N^`, `N` a number: the power binds tighter than the minus) -/
def negative_base_pattern : String := Gen.StringTables.negative_base_pattern
/-- replacement template of `negative_base_pattern.sub(r"-1 * \1", …)` in `eq_string_to_infix_tokens` -/
def negative_base_repl : String := (Gen.StringTables.subTemplates.lookup "negative_base_pattern").getD ""
/-- the order in which `eq_string_to_infix_tokens` applies its three `re.sub` passes -/
def subOrder : List String := Gen.StringTables.subTemplates.map (·.1)
/-- replacement template of `non_unary_op_pattern.sub(r" \1 ", …)` in `eq_string_to_infix_tokens` -/
def non_unary_op_repl : String := (Gen.StringTables.subTemplates.lookup "non_unary_op_pattern").getD ""
/-- the `bad_token` list of `eq_string_to_infix_tokens` -/
def bad_tokens : List String := Gen.StringTables.bad_tokens
/-- the chained `.replace(old, new)` calls of `eq_string_to_infix_tokens`, in order -/
def replacements : List (String × String) := Gen.StringTables.replacements
/-- the separator of `.split(" ")` in `eq_string_to_infix_tokens` -/
def split_sep : String := Gen.StringTables.split_sep
/-- the parenthesis literals of `infix_to_postfix` -/
def LPAREN : String := "("
def RPAREN : String := ")"
/-- the token exempt from left-associativity in `infix_to_postfix` (`token != "^"`) -/
def RIGHT_ASSOC : String := Gen.StringTables.RIGHT_ASSOC

/-- exception messages of string_parsing.py (`{}` = the f-string field) -/
def MSG_INF_COMPLEX : String := "Cannot parse inf/complex"
def MSG_PAREN : String := "Mismatched parenthesis"
def MSG_UNKNOWN_TOKEN : String := "Unknown token {}"
def MSG_POSTFIX : String := "Error evaluating postfix expression"

end Tables
end Str
end Bingo
