import Model.Eval
import Model.Ops
/-!
# The expression a stack row denotes, as a tree

`trees s` unfolds every row of the DAG into the tree it denotes (sharing is duplicated).
`den` evaluates a tree with the *same generated per-node rules*; `Proofs/Props/C01.lean`
proves `Eval.fwd` (the row-by-row DAG sweep) agrees with `den` on every row.
-/
namespace Bingo

inductive ETree where
  | bad                                   -- a row Python could not evaluate (bad reference / unknown node)
  | leaf (node p1 : Int)                  -- INTEGER n / VARIABLE j / CONSTANT j
  | un (node : Int) (a : ETree)
  | bin (node : Int) (a b : ETree)
  deriving Repr, Inhabited, BEq

namespace ETree
variable {α : Type} [Scalar α]

def leafCtx (x c : List α) (p1 : Int) : RuleCtx α :=
  { intParam := Scalar.ofInt p1
    loadX := (pyIdx x.length p1).bind (x[·]?)
    loadC := (pyIdx c.length p1).bind (c[·]?)
    fwd := fun _ => none
    rev := none }

def opCtx (va vb : Option α) : RuleCtx α :=
  { intParam := Scalar.ofInt 0
    loadX := none
    loadC := none
    fwd := fun r => match r with
      | .p1 => va
      | .p2 => vb
      | .self => none
    rev := none }

/-- value of a tree at one data row -/
def den (x c : List α) : ETree → Option α
  | bad => none
  | leaf node p1 =>
    match Eval.fwdRule node with
    | none => none
    | some rule => rule.interp (leafCtx x c p1)
  | un node a =>
    match Eval.fwdRule node with
    | none => none
    | some rule => rule.interp (opCtx (den x c a) none)
  | bin node a b =>
    match Eval.fwdRule node with
    | none => none
    | some rule => rule.interp (opCtx (den x c a) (den x c b))

def getT (N : Nat) (acc : List ETree) (p : Int) : ETree :=
  ((pyIdx N p).bind (acc[·]?)).getD bad

def rowTree (N : Nat) (acc : List ETree) (cmd : Cmd) : ETree :=
  match Ops.isTerminal cmd.node, Ops.isArity2 cmd.node with
  | some true, some false => leaf cmd.node cmd.p1
  | some false, some false => un cmd.node (getT N acc cmd.p1)
  | some false, some true => bin cmd.node (getT N acc cmd.p1) (getT N acc cmd.p2)
  | _, _ => bad

def treesAux (N : Nat) : List Cmd → List ETree → List ETree
  | [], acc => acc
  | cmd :: rest, acc => treesAux N rest (acc ++ [rowTree N acc cmd])

/-- the tree of every row -/
def trees (s : Stack) : List ETree := treesAux s.length s []

/-- the expression the equation denotes -/
def ofStack (s : Stack) : ETree := (trees s).getLast?.getD bad

end ETree

end Bingo
