import Model.Key
/-!
# Best-individual queries

* `islandScan` -- the loop of `Island.get_best_individual`:
  `best = pop[0]; for indv in pop: if indv.fitness < best.fitness or isnan(best.fitness): best = indv`.
* `pyMinBy` -- Python's `min(iterable, key=...)`: keeps the first element unless a later one compares `<`.
-/
namespace Bingo
namespace BestScan

def scanStep {ι : Type} (best : Key × ι) (indv : Key × ι) : Key × ι :=
  if Key.lt indv.1 best.1 || best.1.isNan then indv else best

/-- `Island.get_best_individual` (`none` = empty population, `IndexError`) -/
def islandScan {ι : Type} : List (Key × ι) → Option (Key × ι)
  | [] => none
  | p :: rest => some ((p :: rest).foldl scanStep p)

/-- Python `min(xs, key=k)` -/
def pyMinBy {ι : Type} : List (Key × ι) → Option (Key × ι)
  | [] => none
  | p :: rest => some (rest.foldl (fun best indv => if Key.lt indv.1 best.1 then indv else best) p)

end BestScan
end Bingo
