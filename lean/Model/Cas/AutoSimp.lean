import Model.Cas.Expr
/-!
# Automatic simplification (`simplification_backend/automatic_simplification.py`)

All product / sum / power helpers are mutually recursive without an evident structural measure, so
every function takes a fuel argument (one unit per Python call level); out of fuel = `error "fuel"`.
`st` is the strict-overflow switch handed to the integer arithmetic (`arith`, `intPow`).
-/
namespace Bingo
namespace Cas
open Gen.OpDefs
open Expr

/-- `op.operands if op.operator == aop else [op]` (the `to_merge_*` lists) -/
def mergeOperands (aop : Int) (e : Expr) : List Expr := if e.op == aop then e.args else [e]

mutual

/-- mirrors `simplify_power` (applied to `Expression(POWER, [base, exponent])`) -/
def simplifyPower (st : Bool) : Nat → Expr → Expr → R Expr
  | 0, _, _ => throw "fuel"
  | fuel+1, base, exponent =>
    if base.isOne then pure ONE
    else if base.isZero && exponent.isPosInt then pure ZERO
    else if exponent.isIntOrConst then simplifyConstantPower st fuel base exponent
    else pure (node POWER [base, exponent])

/-- mirrors `_simplify_constant_power` -/
def simplifyConstantPower (st : Bool) : Nat → Expr → Expr → R Expr
  | 0, _, _ => throw "fuel"
  | fuel+1, base, exponent =>
    if exponent.isOne then pure base
    else if exponent.isZero then pure ONE
    else
      match base.intVal?, exponent.intVal? with
      | some b, some e =>
        if e.val > 0 then do pure (ofPInt (← intPow st b e)) else pure (node POWER [base, exponent])
      | _, _ =>
        if base.op == POWER && exponent.op == INTEGER then
          -- multiply powers: `(b^m)^n = b^(m*n)` for an INTEGER `n` only
          match base.args with
          | [baseBase, baseExponent] => do
            let newExponent ← simplifyProduct st fuel [baseExponent, exponent]
            if baseExponent.isIntOrConst then simplifyConstantPower st fuel baseBase newExponent
            else pure (node POWER [baseBase, newExponent])
          | _ => throw "IndexError"
        else if base.op == MULTIPLICATION then do
          -- distribute constant powers
          let parts ← base.args.mapM (fun bas => simplifyConstantPower st fuel bas exponent)
          simplifyProduct st fuel parts
        else pure (node POWER [base, exponent])

/-- mirrors `simplify_product` (applied to `Expression(MULTIPLICATION, operands)`) -/
def simplifyProduct (st : Bool) : Nat → List Expr → R Expr
  | 0, _ => throw "fuel"
  | fuel+1, operands =>
    if operands.any isZero then pure ZERO
    else match operands with
      | [a] => pure a
      | _ => do
        let rs ← simplifyProductRec st fuel operands
        match rs with
        | [] => pure ONE
        | [a] => pure a
        | _ => pure (node MULTIPLICATION rs)

/-- mirrors `_simplify_product_rec` -/
def simplifyProductRec (st : Bool) : Nat → List Expr → R (List Expr)
  | 0, _ => throw "fuel"
  | _+1, [] => throw "fuel"   -- Python: `operands[1:]` of `[]` recurses forever
  | fuel+1, [op1, op2] =>
    match op1.intVal?, op2.intVal? with
    | some a, some b => do
      let p := ofPInt (← arith st (· * ·) a b)
      pure (if p.isOne then [] else [p])
    | _, _ =>
      if op1.op != MULTIPLICATION && op2.op != MULTIPLICATION then
        if op1.isOne then pure [op2]
        else if op2.isOne then pure [op1]
        else if optBeq op1.base op2.base then
          match op1.base, op1.exponent, op2.exponent with
          | some b, some e1, some e2 => do
            let newExponent ← simplifySum st fuel [e1, e2]
            let combined ← simplifyPower st fuel b newExponent
            pure (if combined.isOne then [] else [combined])
          | _, _, _ => throw "AttributeError"
        else do
          if ← ltF fuel op2 op1 then pure [op2, op1] else pure [op1, op2]
      else mergeProducts st fuel (mergeOperands MULTIPLICATION op1) (mergeOperands MULTIPLICATION op2)
  | fuel+1, op :: rest => do
    let restSimplified ← simplifyProductRec st fuel rest
    mergeProducts st fuel (mergeOperands MULTIPLICATION op) restSimplified

/-- mirrors `_merge_products` -/
def mergeProducts (st : Bool) : Nat → List Expr → List Expr → R (List Expr)
  | 0, _, _ => throw "fuel"
  | _+1, [], o2 => pure o2
  | _+1, o1, [] => pure o1
  | fuel+1, a :: as, b :: bs =>
    -- a collected factor can itself be a product: keep the operand lists flat
    if a.op == MULTIPLICATION then mergeProducts st fuel (a.args ++ as) (b :: bs)
    else if b.op == MULTIPLICATION then mergeProducts st fuel (a :: as) (b.args ++ bs)
    else do
    let firsts ← simplifyProductRec st fuel [a, b]
    match firsts with
    | [] => mergeProducts st fuel as bs
    | [s] => do pure (s :: (← mergeProducts st fuel as bs))
    | s :: _ =>
      if s.beq a then do pure (s :: (← mergeProducts st fuel as (b :: bs)))
      else do pure (s :: (← mergeProducts st fuel (a :: as) bs))

/-- mirrors `simplify_sum` (applied to `Expression(ADDITION, operands)`) -/
def simplifySum (st : Bool) : Nat → List Expr → R Expr
  | 0, _ => throw "fuel"
  | fuel+1, operands =>
    match operands with
    | [a] => pure a
    | _ => do
      let rs ← simplifySumRec st fuel operands
      match rs with
      | [] => pure ZERO
      | [a] => pure a
      | _ => pure (node ADDITION rs)

/-- mirrors `_simplify_sum_rec` -/
def simplifySumRec (st : Bool) : Nat → List Expr → R (List Expr)
  | 0, _ => throw "fuel"
  | _+1, [] => throw "fuel"   -- Python: `operands[1:]` of `[]` recurses forever
  | fuel+1, [op1, op2] =>
    match op1.intVal?, op2.intVal? with
    | some a, some b => do
      let s := ofPInt (← arith st (· + ·) a b)
      pure (if s.isZero then [] else [s])
    | _, _ =>
      if op1.op != ADDITION && op2.op != ADDITION then
        if op1.isZero then pure [op2]
        else if op2.isZero then pure [op1]
        else if optBeq op1.termOf op2.termOf then
          match op1.termOf, op1.coefficient, op2.coefficient with
          | some t, some c1, some c2 => do
            let newCoefficient ← simplifySum st fuel [c1, c2]
            let combined ← simplifyProduct st fuel [newCoefficient, t]
            pure (if combined.isZero then [] else [combined])
          | _, _, _ => throw "AttributeError"
        else do
          if ← ltF fuel op2 op1 then pure [op2, op1] else pure [op1, op2]
      else mergeSums st fuel (mergeOperands ADDITION op1) (mergeOperands ADDITION op2)
  | fuel+1, op :: rest => do
    let restSimplified ← simplifySumRec st fuel rest
    mergeSums st fuel (mergeOperands ADDITION op) restSimplified

/-- mirrors `_merge_sums` -/
def mergeSums (st : Bool) : Nat → List Expr → List Expr → R (List Expr)
  | 0, _, _ => throw "fuel"
  | _+1, [], o2 => pure o2
  | _+1, o1, [] => pure o1
  | fuel+1, a :: as, b :: bs =>
    -- a collected term can itself be a sum: keep the operand lists flat
    if a.op == ADDITION then mergeSums st fuel (a.args ++ as) (b :: bs)
    else if b.op == ADDITION then mergeSums st fuel (a :: as) (b.args ++ bs)
    else do
    let firsts ← simplifySumRec st fuel [a, b]
    match firsts with
    | [] => mergeSums st fuel as bs
    | [s] => do pure (s :: (← mergeSums st fuel as bs))
    | s :: _ =>
      if s.beq a then do pure (s :: (← mergeSums st fuel as (b :: bs)))
      else do pure (s :: (← mergeSums st fuel (a :: as) bs))

end

/-- mirrors `simplify_safe_power`: `|base| ** exponent` -/
def simplifySafePower (st : Bool) (fuel : Nat) (base exponent : Expr) : R Expr :=
  simplifyPower st fuel (node ABS [base]) exponent

/-- mirrors `simplify_quotient` -/
def simplifyQuotient (st : Bool) (fuel : Nat) (numerator denominator : Expr) : R Expr := do
  let denominatorInv ← simplifyPower st fuel denominator NEGATIVE_ONE
  simplifyProduct st fuel [numerator, denominatorInv]

/-- mirrors `simplify_difference` -/
def simplifyDifference (st : Bool) (fuel : Nat) (first second : Expr) : R Expr := do
  let negated ←
    if second.op == ADDITION then second.args.mapM (fun o => simplifyProduct st fuel [NEGATIVE_ONE, o])
    else do pure [← simplifyProduct st fuel [NEGATIVE_ONE, second]]
  simplifySum st fuel (first :: negated)

/-- mirrors `simplify_sin`, `simplify_sinh` (`zeroTo = ZERO`) and `simplify_cos`, `simplify_exponential`,
`simplify_cosh` (`zeroTo = ONE`) -/
def simplifyAtZero (zeroTo : Expr) (op : Int) (a : Expr) : Expr :=
  if a.isZero then zeroTo else node op [a]

/-- mirrors `simplify_logarithm` -/
def simplifyLogarithm (a : Expr) : R Expr :=
  if a.isOne then pure ZERO
  else if a.op == EXPONENTIAL then
    match a.args with
    | x :: _ => pure x
    | [] => throw "IndexError"
  else pure (node LOGARITHM [a])

/-- the dispatch `SIMPLIFICATION_FUNCTIONS[operator](expression)` -/
def dispatch (st : Bool) (fuel : Nat) (op : Int) (args : List Expr) : R Expr :=
  match args with
  | [a, b] =>
    if op = POWER then simplifyPower st fuel a b
    else if op = MULTIPLICATION then simplifyProduct st fuel args
    else if op = ADDITION then simplifySum st fuel args
    else if op = DIVISION then simplifyQuotient st fuel a b
    else if op = SUBTRACTION then simplifyDifference st fuel a b
    else if op = SAFE_POWER then simplifySafePower st fuel a b
    else throw "KeyError"
  | [a] =>
    if op = SIN then pure (simplifyAtZero ZERO op a)
    else if op = COS then pure (simplifyAtZero ONE op a)
    else if op = LOGARITHM then simplifyLogarithm a
    else if op = EXPONENTIAL then pure (simplifyAtZero ONE op a)
    else if op = ABS then pure (node op [a])        -- `no_simplification`
    else if op = SQRT then pure (node op [a])       -- `no_simplification`
    else if op = SINH then pure (simplifyAtZero ZERO op a)
    else if op = COSH then pure (simplifyAtZero ONE op a)
    else throw "KeyError"
  | _ => throw "KeyError"

mutual
/-- mirrors `automatic_simplify` -/
def automaticSimplify (st : Bool) (fuel : Nat) : Expr → R Expr
  | e@(term _ _ _) => pure e
  | node op args => do
    let args' ← automaticSimplifyList st fuel args
    dispatch st fuel op args'
/-- `expression.map(automatic_simplify)` -/
def automaticSimplifyList (st : Bool) (fuel : Nat) : List Expr → R (List Expr)
  | [] => pure []
  | a :: as => do
    let a' ← automaticSimplify st fuel a
    pure (a' :: (← automaticSimplifyList st fuel as))
end

end Cas
end Bingo
