import Model.Cas.Expr
/-!
# Constant folding (`simplification_backend/constant_folding.py`)

Python `set`s / `dict`s keyed by expressions are association lists compared with `Expr.beq`.
Iteration orders chosen where Python iterates a hash container:
* `const_subset` (a `set` of constant ids): the order of the combination, i.e. of `_get_constants`.
  It only decides WHICH constant id names an insertion point; ids never reach the command array.
* `insertions` (a `set` of `(parent, frozenset)`): insertion order (the assignments commute).
* `children` (a `frozenset` of operands): operand order.  After `_group_constants` every such
  frozenset has exactly one element, so the order is immaterial.
-/
namespace Bingo
namespace Cas
open Gen.OpDefs
open Expr

mutual
/-- mirrors `_group_constants` -/
def groupConstants : Expr → Expr
  | e@(term _ _ _) => e
  | node op args =>
    let newOperands := groupConstantsList args
    if op == MULTIPLICATION || op == ADDITION then
      let constOperands := newOperands.filter isCV
      let nonConstOperands := newOperands.filter (fun o => !o.isCV)
      if constOperands.length > 1 && nonConstOperands.length > 0 then
        node op (node op constOperands :: nonConstOperands)
      else node op newOperands
    else node op newOperands
def groupConstantsList : List Expr → List Expr
  | [] => []
  | a :: as => groupConstants a :: groupConstantsList as
end

/-- `dict.update` for one key: an existing key keeps its position, the value is overwritten -/
def dictSet (d : List (Int × Expr)) (k : Int) (v : Expr) : List (Int × Expr) :=
  if d.any (·.1 == k) then d.map (fun p => if p.1 == k then (k, v) else p) else d ++ [(k, v)]

mutual
/-- mirrors `_get_constants` (accumulator form): ids in order of first depth-first occurrence -/
def getConstantsAcc : Expr → List (Int × Expr) → List (Int × Expr)
  | e@(term o v _), acc => if o = CONSTANT then dictSet acc v e else acc
  | node _ args, acc => getConstantsList args acc
def getConstantsList : List Expr → List (Int × Expr) → List (Int × Expr)
  | [], acc => acc
  | a :: as, acc => getConstantsList as (getConstantsAcc a acc)
end

/-- mirrors `_get_constants` -/
def getConstants (e : Expr) : List (Int × Expr) := getConstantsAcc e []

mutual
/-- `not expression.depends_on.isdisjoint(constants)` -/
def hasConsts (S : List Int) : Expr → Bool
  | term o v _ => o == CONSTANT && S.contains v
  | node _ args => hasConstsList S args
def hasConstsList (S : List Int) : List Expr → Bool
  | [] => false
  | a :: as => hasConsts S a || hasConstsList S as
end

mutual
/-- `len(expression.depends_on - constants - {"i"}) > 0` -/
def hasOthers (S : List Int) : Expr → Bool
  | term o v _ => o == VARIABLE || (o == CONSTANT && !S.contains v)
  | node _ args => hasOthersList S args
def hasOthersList (S : List Int) : List Expr → Bool
  | [] => false
  | a :: as => hasOthers S a || hasOthersList S as
end

/-- mirrors `_is_insertion_point_for_constants` -/
def isInsertionPoint (S : List Int) (operands : List Expr) : Bool :=
  operands.any (fun o => hasConsts S o && !hasOthers S o) && operands.any (hasOthers S)

/-- `(parent, frozenset(children))` -/
abbrev Insertion := Option Expr × List Expr
/-- `insertion_points`: expression ↦ set of insertions, in dict insertion order -/
abbrev InsertionPoints := List (Expr × List Insertion)

/-- list-as-set inclusion w.r.t. `Expr.beq` -/
def subsetBy (xs ys : List Expr) : Bool := xs.all (fun x => ys.any (x.beq ·))

/-- tuple equality `(parent, frozenset) == (parent', frozenset')` -/
def insertionEq (a b : Insertion) : Bool :=
  optBeq a.1 b.1 && subsetBy a.2 b.2 && subsetBy b.2 a.2

/-- `insertion_points[key].add(ins)` on the `defaultdict(set)` -/
def addInsertion : InsertionPoints → Expr → Insertion → InsertionPoints
  | [], key, ins => [(key, [ins])]
  | (k, set) :: rest, key, ins =>
    if k.beq key then (k, if set.any (insertionEq ins) then set else set ++ [ins]) :: rest
    else (k, set) :: addInsertion rest key ins

/-- `frozenset([...])` of a list: drop duplicates, keep first occurrences -/
def dedupExprs : List Expr → List Expr
  | [] => []
  | a :: as => a :: (dedupExprs as).filter (fun b => !(a.beq b))

mutual
/-- mirrors `_recursive_insertion_point_search` -/
def searchInsertionPoints (S : List Int) : Expr → Option Expr → InsertionPoints → InsertionPoints
  | term _ _ _, _, acc => acc
  | e@(node _ args), parent, acc =>
    let acc := searchInsertionPointsList S args (some e) acc
    if !isInsertionPoint S args then acc
    else if e.isCV then addInsertion acc e (parent, [e])
    else addInsertion acc e (some e, dedupExprs (args.filter (fun o => !hasOthers S o)))
def searchInsertionPointsList (S : List Int) : List Expr → Option Expr → InsertionPoints → InsertionPoints
  | [], _, acc => acc
  | a :: as, parent, acc => searchInsertionPointsList S as parent (searchInsertionPoints S a parent acc)
end

/-- mirrors `_find_insertion_points` -/
def findInsertionPoints (e : Expr) (S : List Int) : InsertionPoints :=
  if hasConsts S e && !hasOthers S e then [(e, [(none, [e])])]
  else searchInsertionPoints S e none []

/-- `replacements`: parent ↦ (child ↦ constant to insert, or `None` = delete) -/
abbrev Replacements := List (Option Expr × List (Expr × Option Expr))

/-- `replacements[parent][child] = value` on the `defaultdict(dict)` -/
def setReplacement : Replacements → Option Expr → Expr → Option Expr → Replacements
  | [], parent, child, v => [(parent, [(child, v)])]
  | (p, d) :: rest, parent, child, v =>
    if optBeq p parent then
      (p, if d.any (·.1.beq child) then d.map (fun kv => if kv.1.beq child then (kv.1, v) else kv)
          else d ++ [(child, v)]) :: rest
    else (p, d) :: setReplacement rest parent child v

/-- state of the loops in `_generate_replacement_instructions`:
`(replacements, constants_to_insert, expressions_to_replace)` -/
abbrev GenState := Replacements × List (Option Expr) × List Expr

/-- the loop `for i, child in enumerate(children)` -/
def genChildren (constToInsert : Expr) (parent : Option Expr) : List Expr → Bool → GenState → GenState
  | [], _, s => s
  | child :: rest, first, (repl, ins, reps) =>
    let v := if first then some constToInsert else none
    genChildren constToInsert parent rest false (setReplacement repl parent child v, v :: ins, child :: reps)

/-- the loop `for (parent, children) in insertions` -/
def genInsertions (constToInsert : Expr) : List Insertion → GenState → GenState
  | [], s => s
  | (parent, children) :: rest, s =>
    genInsertions constToInsert rest (genChildren constToInsert parent children true s)

/-- the loop `for const_num, (_, insertions) in zip(const_subset, insertion_points.items())` -/
def genZip (constants : List (Int × Expr)) : List Int → InsertionPoints → GenState → R GenState
  | c :: cs, (_, insertions) :: ips, s =>
    match constants.lookup c with
    | some constToInsert => genZip constants cs ips (genInsertions constToInsert insertions s)
    | none => throw "KeyError"
  | _, _, s => pure s

/-- `constants_to_insert == expressions_to_replace` (sets of expressions / `None`) -/
def sameSets (ins : List (Option Expr)) (reps : List Expr) : Bool :=
  ins.all (fun i => reps.any (fun r => optBeq i (some r))) &&
  reps.all (fun r => ins.any (fun i => optBeq i (some r)))

/-- mirrors `_generate_replacement_instructions` (`[]` = the empty dict) -/
def generateReplacements (S : List Int) (constants : List (Int × Expr)) (ips : InsertionPoints) :
    R Replacements :=
  if ips.length > S.length then pure []
  else do
    let (repl, ins, reps) ← genZip constants S ips ([], [], [])
    if sameSets ins reps then pure [] else pure repl

/-- the branch `if None in replacements: return replacements[None][expression].copy()` of
`_perform_constant_folding` (`none` = `None not in replacements`) -/
def wholeReplacement? (repl : Replacements) (e : Expr) : Option (R Expr) :=
  match repl.find? (·.1.isNone) with
  | some (_, d) =>
    match d.find? (·.1.beq e) with
    | some (_, some c) => some (pure c)
    | some (_, none) => some (throw "AttributeError")
    | none => some (throw "KeyError")
  | none => none

/-- `replacements[expression]` if `expression in replacements`, else the empty dict -/
def replacementsFor (repl : Replacements) (e : Expr) : List (Expr × Option Expr) :=
  match repl.find? (fun p => optBeq p.1 (some e)) with
  | some (_, d) => d
  | none => []

mutual
/-- mirrors `_perform_constant_folding` and `_recursive_expreson_replacement` -/
def performConstantFolding (repl : Replacements) : Expr → R Expr
  | e@(term _ _ _) =>
    match wholeReplacement? repl e with
    | some r => r
    | none => pure e
  | e@(node op args) =>
    match wholeReplacement? repl e with
    | some r => r
    | none => do pure (node op (← foldOperands repl (replacementsFor repl e) args))
/-- mirrors `_get_new_operands_with_replacements` (`d = replacements[expression]`; the empty `d` gives
`expression.map(_perform_constant_folding)`) -/
def foldOperands (repl : Replacements) (d : List (Expr × Option Expr)) : List Expr → R (List Expr)
  | [] => pure []
  | o :: os =>
    match d.find? (·.1.beq o) with
    | some (_, some c) => do pure (c :: (← foldOperands repl d os))
    | some (_, none) => foldOperands repl d os
    | none => do
      let o' ← performConstantFolding repl o
      pure (o' :: (← foldOperands repl d os))
end

/-- one pass of `for const_subset in _subsets(list(constants))`: the first subset (sizes ascending,
`itertools.combinations` order) whose replacement instructions are non-empty.
`k` more ids are to be chosen from `pool`; `acc` is the reversed prefix chosen so far. -/
def firstFoldOfSize (e : Expr) (constants : List (Int × Expr)) :
    Nat → List Int → List Int → R (Option Replacements)
  | 0, _, acc => do
    let S := acc.reverse
    let repl ← generateReplacements S constants (findInsertionPoints e S)
    pure (if repl.isEmpty then none else some repl)
  | _+1, [], _ => pure none
  | k+1, c :: cs, acc =>
    if cs.length < k then pure none
    else do
      match ← firstFoldOfSize e constants k cs (c :: acc) with
      | some r => pure (some r)
      | none => firstFoldOfSize e constants (k+1) cs acc

/-- sizes `size, size+1, …, size+n-1` of `_subsets` -/
def firstFold (e : Expr) (constants : List (Int × Expr)) (ids : List Int) : Nat → Nat → R (Option Replacements)
  | 0, _ => pure none
  | n+1, size => do
    match ← firstFoldOfSize e constants size ids [] with
    | some r => pure (some r)
    | none => firstFold e constants ids n (size+1)

/-- the `while check_for_folding` loop of `fold_constants` -/
def foldLoop : Nat → Expr → R Expr
  | 0, _ => throw "fuel"
  | fuel+1, e => do
    let constants := getConstants e
    let ids := constants.map (·.1)
    match ← firstFold e constants ids ids.length 1 with
    | some repl => do foldLoop fuel (← performConstantFolding repl e)
    | none => pure e

/-- mirrors `fold_constants` -/
def foldConstants (fuel : Nat) (e : Expr) : R Expr := foldLoop fuel (groupConstants e)

end Cas
end Bingo
