import Model.Cas.Interp
import Model.Cas.AutoSimp
import Model.Cas.ConstFold
import Model.Cas.OptMod
/-!
# The simplification pipeline (`simplification_backend/simplify.py`, `simplify_stack`)
-/
namespace Bingo
namespace Cas

/-- fuel handed to every pass for a stack of `n` rows -/
def fuelFor (n : Nat) : Nat := 64 * (n + 4) * (n + 4)

/-- mirrors `simplify.simplify`; `strict` turns a value-changing `int64` wrap into `error "ovf"` -/
def simplifyWith (strict : Bool) (stack : Stack) : R Stack := do
  let fuel := fuelFor stack.length
  let e ← buildCasExpression stack
  let e ← automaticSimplify strict fuel e
  let e ← foldConstants fuel e
  let e ← optionalModifications e
  buildAgraphStack e

/-- mirrors `simplification_backend.simplify_stack` (wrapping `int64` arithmetic) -/
def simplify (stack : Stack) : R Stack := simplifyWith false stack

/-- `simplify` together with `overflowed`: did some `int64` operation wrap to a different value?
(The strict run is identical to the wrapping run up to the first such wrap.) -/
def simplifyChecked (stack : Stack) : R Stack × Bool :=
  match simplifyWith true stack with
  | .error "ovf" => (simplifyWith false stack, true)
  | r => (r, false)

/-- the expression after `automatic_simplify` (debugging) -/
def autoSimplified (stack : Stack) : R Expr := do
  let e ← buildCasExpression stack
  automaticSimplify false (fuelFor stack.length) e

end Cas
end Bingo
