import Model.Cas.Interp
import Model.Cas.AutoSimp
import Model.Cas.ConstFold
import Model.Cas.OptMod
import Model.Reduce
/-!
# The simplification pipeline (`simplification_backend/simplify.py`, `simplify_stack`)
-/
namespace Bingo
namespace Cas

/-- fuel handed to every pass for a stack of `n` rows -/
def fuelFor (n : Nat) : Nat := 64 * (n + 4) * (n + 4)

/-- mirrors `simplify.simplify`; `strict` turns a value-changing `int64` wrap into `error "ovf"` -/
def simplifyWith (strict : Bool) (stack : Stack) : R Stack := do
  let fuel := fuelFor stack.length
  let e ← buildCasExpression stack
  let e ← automaticSimplify strict fuel e
  let e ← foldConstants fuel e
  let e ← optionalModifications e
  buildAgraphStack e

/-- the exceptions `simplify_stack` catches (`except (OverflowError, MemoryError)`); `"ovf"` is the
`OverflowError` of `_checked_integer` / `_checked_integer_power` -/
def isCaught (e : String) : Bool := e == "ovf" || e == "OverflowError" || e == "MemoryError"

/-- `reduce_stack(stack)` as an `R` (its failure on an ill-formed stack is an `IndexError`) -/
def reduceR (stack : Stack) : R Stack :=
  match Reduce.reduce stack with
  | some r => pure r
  | none => throw "IndexError"

/-- mirrors `simplification_backend.simplify_stack`: the CAS, and plain reduction when an integer of the
simplified expression would not fit in a command array -/
def simplify (stack : Stack) : R Stack :=
  match simplifyWith false stack with
  | .error e => if isCaught e then reduceR stack else throw e
  | r => r

/-- `simplify` together with `fellBack`: did `simplify_stack` fall back to `reduce_stack`? -/
def simplifyChecked (stack : Stack) : R Stack × Bool :=
  match simplifyWith false stack with
  | .error e => if isCaught e then (reduceR stack, true) else (throw e, false)
  | r => (r, false)

/-- the expression after `automatic_simplify` (debugging) -/
def autoSimplified (stack : Stack) : R Expr := do
  let e ← buildCasExpression stack
  automaticSimplify false (fuelFor stack.length) e

end Cas
end Bingo
