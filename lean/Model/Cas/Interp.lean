import Model.Cas.Expr
import Model.Ops
/-!
# Command array ↔ CAS expression (`simplification_backend/interpreter.py`)
-/
namespace Bingo
namespace Cas
open Gen.OpDefs
open Expr

/-- mirrors `_build_expresion_recursive`; `np` tells whether `location` is a `numpy.int64` (a parameter
read from the array) or the Python int `len(stack) - 1`.  A path longer than the stack revisits a row,
i.e. Python recurses forever, so `fuel = len(stack) + 1` is exact. -/
def buildExpressionRec (stack : Stack) : Nat → Int → Bool → R Expr
  | 0, _, _ => throw "fuel"
  | fuel+1, location, np =>
    match (pyIdx stack.length location).bind (stack[·]?) with
    | none => throw "IndexError"
    | some cmd =>
      match Ops.isTerminal cmd.node, Ops.isArity2 cmd.node with
      | some true, some _ =>
        if cmd.node = CONSTANT then pure (term cmd.node location np)
        else if cmd.node = INTEGER then pure (term cmd.node cmd.p1 false)   -- `int(param_1)`: an exact Python int
        else pure (term cmd.node cmd.p1 true)
      | some false, some arity2 => do
        let a ← buildExpressionRec stack fuel cmd.p1 true
        if arity2 then do
          let b ← buildExpressionRec stack fuel cmd.p2 true
          pure (node cmd.node [a, b])
        else pure (node cmd.node [a])
      | _, _ => throw "KeyError"

/-- mirrors `build_cas_expression` -/
def buildCasExpression (stack : Stack) : R Expr :=
  buildExpressionRec stack (stack.length + 1) (Int.ofNat stack.length - 1) false

/-- `stack_dict`: the commands in order of their location -/
abbrev StackDict := List Cmd

/-- mirrors `_add_command_to_stack_dict` -/
def addCommand (d : StackDict) (c : Cmd) : StackDict × Int :=
  match d.findIdx? (· == c) with
  | some i => (d, Int.ofNat i)
  | none => (d ++ [c], Int.ofNat d.length)

/-- mirrors `_add_associative_operators_to_stack` (fuel ≥ number of locations) -/
def addAssociative (op : Int) : Nat → List Int → StackDict → R (StackDict × Int)
  | 0, _, _ => throw "fuel"
  | _+1, [l], d => pure (d, l)
  | fuel+1, locs, d => do
    let half := locs.length / 2
    let (d, loc1) ← addAssociative op fuel (locs.take half) d
    let (d, loc2) ← addAssociative op fuel (locs.drop half) d
    pure (addCommand d ⟨op, loc1, loc2⟩)

mutual
/-- mirrors `_build_stack_recursive` -/
def buildStackRec : Expr → StackDict → R (StackDict × Int)
  | term o v _, d => pure (addCommand d ⟨o, v, v⟩)
  | e@(node op args), d => do
    let (d, locs) ← buildStackRecList args d
    match locs with
    | [l] => pure (addCommand d ⟨op, l, l⟩)
    | [l1, l2] => pure (addCommand d ⟨op, l1, l2⟩)
    | _ =>
      let firstCV := match args with
        | a :: _ => a.isCV
        | [] => false
      if !e.isCV && firstCV then
        match locs with
        | l0 :: rest => do
          let (d, loc) ← addAssociative op (rest.length + 1) rest d
          pure (addCommand d ⟨op, l0, loc⟩)
        | [] => throw "IndexError"
      else addAssociative op (locs.length + 1) locs d
def buildStackRecList : List Expr → StackDict → R (StackDict × List Int)
  | [], d => pure (d, [])
  | a :: as, d => do
    let (d, l) ← buildStackRec a d
    let (d, ls) ← buildStackRecList as d
    pure (d, l :: ls)
end

/-- the loop `stack[loc] = command` of `build_agraph_stack`: the values are stored into an `int64` array -/
def emitCommand (c : Cmd) : R Cmd :=
  if c.node = CONSTANT then pure ⟨CONSTANT, -1, -1⟩
  else if inInt64 c.node && inInt64 c.p1 && inInt64 c.p2 then pure c
  else throw "OverflowError"

/-- mirrors `build_agraph_stack` -/
def buildAgraphStack (e : Expr) : R Stack := do
  let (d, _) ← buildStackRec e []
  d.mapM emitCommand

end Cas
end Bingo
