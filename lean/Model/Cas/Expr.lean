import Model.Stack
import Model.Generated.OpDefs
/-!
# CAS expressions (`simplification_backend/expression.py`)

`Expression(operator, operands)`: the operands of a terminal (`INTEGER`, `VARIABLE`, `CONSTANT`) are a
single integer, the operands of every other operator are expressions.

Integers that were read out of the command array are `numpy.int64` scalars, integers created by the
simplifier itself (`ONE`, `ZERO`, `NEGATIVE_ONE`, default exponent / coefficient) are Python `int`s.
Arithmetic between them follows NumPy-2 promotion: as soon as one operand is an `int64` the result is an
`int64` and wraps modulo 2^64 (a Python `int` operand outside the `int64` range raises `OverflowError`);
two Python `int`s are multiplied / added exactly.  The flag `np` of a terminal records which kind it is;
it never takes part in `==`, `<` or hashing (`np.int64(2) == 2`).
-/
namespace Bingo
namespace Cas
open Gen.OpDefs

/-- result of a Python call: `error s` = the Python code raises (s names the exception class;
`"fuel"` = the model ran out of fuel, Python: `RecursionError`; `"ovf"` = strict mode only) -/
abbrev R := Except String

def two63 : Int := 9223372036854775808
def two64 : Int := 18446744073709551616

/-- two's-complement wrap of `numpy.int64` arithmetic -/
def wrap64 (z : Int) : Int := (z + two63) % two64 - two63

/-- does the Python `int` fit a C long (`int64`)? -/
def inInt64 (z : Int) : Bool := decide (-two63 ≤ z) && decide (z < two63)

/-- mirrors `Expression`: `term op v np` = `Expression(op, [v])` for a terminal `op`;
`node op args` = `Expression(op, args)` -/
inductive Expr where
  | term (op : Int) (val : Int) (np : Bool)
  | node (op : Int) (args : List Expr)
  deriving Repr, Inhabited

/-- an integer operand together with its kind (`np = true`: `numpy.int64`, else Python `int`) -/
structure PInt where
  val : Int
  np : Bool

namespace Expr

/-- mirrors `Expression.operator` -/
def op : Expr → Int
  | term o _ _ => o
  | node o _ => o

/-- mirrors `Expression.operands` (for non-terminals) -/
def args : Expr → List Expr
  | term _ _ _ => []
  | node _ as => as

/-- `Expression(INTEGER, [v])` -/
def ofPInt (p : PInt) : Expr := term INTEGER p.val p.np

/-- the integer operand of an `INTEGER` expression -/
def intVal? : Expr → Option PInt
  | term o v n => if o = INTEGER then some ⟨v, n⟩ else none
  | node _ _ => none

mutual
/-- mirrors `Expression.__eq__` (structural; terminals compare their integer operand by value) -/
def beq : Expr → Expr → Bool
  | term o v _, term o' v' _ => o == o' && v == v'
  | node o as, node o' bs => o == o' && beqList as bs
  | _, _ => false
/-- Python `list.__eq__` on operand lists -/
def beqList : List Expr → List Expr → Bool
  | [], [] => true
  | a :: as, b :: bs => beq a b && beqList as bs
  | _, _ => false
end

/-- `a == b` where either side may be `None` -/
def optBeq : Option Expr → Option Expr → Bool
  | none, none => true
  | some a, some b => a.beq b
  | _, _ => false

/-- mirrors `Expression.is_zero` -/
def isZero : Expr → Bool
  | term o v _ => o == INTEGER && v == 0
  | node _ _ => false

/-- mirrors `Expression.is_one` -/
def isOne : Expr → Bool
  | term o v _ => o == INTEGER && v == 1
  | node _ _ => false

/-- `e.operator == INTEGER and e.operands[0] > 0` -/
def isPosInt : Expr → Bool
  | term o v _ => o == INTEGER && decide (v > 0)
  | node _ _ => false

/-- `e.operator in [INTEGER, CONSTANT]` -/
def isIntOrConst (e : Expr) : Bool := e.op == INTEGER || e.op == CONSTANT

mutual
/-- mirrors `Expression.is_constant_valued` / `_is_derived_from_constants` -/
def isCV : Expr → Bool
  | term o _ _ => o == INTEGER || o == CONSTANT
  | node _ as => isCVList as
def isCVList : List Expr → Bool
  | [] => true
  | a :: as => isCV a && isCVList as
end

end Expr

/-- module constants `ZERO`, `ONE`, `NEGATIVE_ONE` (Python ints) -/
def ZERO : Expr := .term INTEGER 0 false
def ONE : Expr := .term INTEGER 1 false
def NEGATIVE_ONE : Expr := .term INTEGER (-1) false

namespace Expr

/-- mirrors `Expression.base` (`none` = Python `None`) -/
def base : Expr → Option Expr
  | e@(term o _ _) => if o = INTEGER then none else some e
  | e@(node o as) => if o = POWER then as[0]? else some e

/-- mirrors `Expression.exponent` -/
def exponent : Expr → Option Expr
  | term o _ _ => if o = INTEGER then none else some ONE
  | node o as => if o = POWER then as[1]? else some ONE

/-- mirrors `Expression.term` -/
def termOf : Expr → Option Expr
  | e@(term o _ _) => if o = INTEGER then none else some (node MULTIPLICATION [e])
  | e@(node o as) =>
    if o = MULTIPLICATION then
      match as with
      | c :: rest => if c.isIntOrConst then some (node MULTIPLICATION rest) else some e
      | [] => none
    else some (node MULTIPLICATION [e])

/-- mirrors `Expression.coefficient` -/
def coefficient : Expr → Option Expr
  | term o _ _ => if o = INTEGER then none else some ONE
  | node o as =>
    if o = MULTIPLICATION then
      match as with
      | c :: _ => if c.isIntOrConst then some c else some ONE
      | [] => none
    else some ONE

mutual
/-- mirrors `Expression.__lt__` (with `_constant_lt`, `_general_lt`, `_associative_lt`, `_power_lt` inlined
as the branches below); fuel-bounded -/
def ltF : Nat → Expr → Expr → R Bool
  | 0, _, _ => throw "fuel"
  | fuel+1, s, o =>
    let scv := s.isCV
    let ocv := o.isCV
    if scv || ocv then
      -- `_constant_lt`
      if scv != ocv then pure scv else generalLtF fuel s o
    else if s.op == MULTIPLICATION || o.op == MULTIPLICATION then assocLtF fuel MULTIPLICATION s o
    else if s.op == POWER || o.op == POWER then
      -- `_power_lt`
      let sb := if s.op == POWER then s.args[0]? else some s
      let se := if s.op == POWER then s.args[1]? else some ONE
      let ob := if o.op == POWER then o.args[0]? else some o
      let oe := if o.op == POWER then o.args[1]? else some ONE
      match sb, se, ob, oe with
      | some sb, some se, some ob, some oe => if sb.beq ob then ltF fuel se oe else ltF fuel sb ob
      | _, _, _, _ => throw "IndexError"
    else if s.op == ADDITION || o.op == ADDITION then assocLtF fuel ADDITION s o
    else generalLtF fuel s o
/-- mirrors `Expression._general_lt` -/
def generalLtF : Nat → Expr → Expr → R Bool
  | 0, _, _ => throw "fuel"
  | fuel+1, s, o =>
    if s.op != o.op then pure (decide (s.op < o.op))
    else match s, o with
      | term _ v _, term _ v' _ => pure (decide (v < v'))
      | node _ as, node _ bs => operandsLtF fuel as.reverse bs.reverse
      | _, _ => throw "TypeError"
/-- mirrors `Expression._associative_lt` -/
def assocLtF : Nat → Int → Expr → Expr → R Bool
  | 0, _, _, _ => throw "fuel"
  | fuel+1, aop, s, o =>
    if s.op == aop then
      if o.op == aop then operandsLtF fuel s.args.reverse o.args.reverse
      else operandsLtF fuel s.args.reverse [o]
    else operandsLtF fuel [s] o.args.reverse
/-- mirrors `Expression._operands_lt`; both lists are passed REVERSED (`zip(reversed(s), reversed(o))`) -/
def operandsLtF : Nat → List Expr → List Expr → R Bool
  | 0, _, _ => throw "fuel"
  | fuel+1, a :: as, b :: bs => if !(a.beq b) then ltF fuel a b else operandsLtF fuel as bs
  | _+1, [], _ :: _ => pure true
  | _+1, _, [] => pure false
end

mutual
/-- canonical printed form (debugging): `I5`, `X0`, `C3`, `op(a,b,...)` -/
def render : Expr → String
  | term o v _ =>
    if o = INTEGER then s!"I{v}" else if o = VARIABLE then s!"X{v}" else if o = CONSTANT then s!"C{v}"
    else s!"T{o}_{v}"
  | node o as => s!"{o}({renderList as})"
def renderList : List Expr → String
  | [] => ""
  | [a] => render a
  | a :: as => render a ++ "," ++ renderList as
end

end Expr

/-- integer arithmetic of the CAS: exact on two Python ints, wrapping `int64` otherwise.
`strict = true` turns a wrap that changes the value into the error `"ovf"`. -/
def arith (strict : Bool) (f : Int → Int → Int) (a b : PInt) : R PInt :=
  if !a.np && !b.np then
    -- `_checked_integer`: exact Python ints; a result that does not fit a command array raises `OverflowError`
    -- (reported as `"ovf"`: `simplify_stack` then falls back to `reduce_stack`)
    let r := f a.val b.val
    if inInt64 r then pure ⟨r, false⟩ else throw "ovf"
  else if !(inInt64 a.val && inInt64 b.val) then throw "OverflowError"
  else
    let r := f a.val b.val
    let w := wrap64 r
    if strict && w != r then throw "ovf" else pure ⟨w, true⟩

/-- `b ** e mod 2^64` by square and multiply (fuel = number of bits of `e`) -/
def powMod64 : Nat → Nat → Nat → Nat → Nat
  | 0, _, _, acc => acc
  | fuel+1, b, e, acc =>
    if e = 0 then acc
    else powMod64 fuel (b * b % 18446744073709551616) (e / 2)
      (if e % 2 = 1 then acc * b % 18446744073709551616 else acc)

/-- `base ** exponent` for `exponent > 0` (the only case the simplifier evaluates) -/
def intPow (strict : Bool) (a b : PInt) : R PInt :=
  let e := b.val.toNat
  if !a.np && !b.np then
    -- `_checked_integer_power`: `(bit_length(|a|) - 1) * e > 63` is decided without computing the power
    -- (`bit_length(n) - 1 = log2 n` for `n ≥ 1`; for `a = 0` neither product exceeds 63)
    if a.val.natAbs.log2 * e > 63 then throw "ovf"
    else
      let r := a.val ^ e
      if inInt64 r then pure ⟨r, false⟩ else throw "ovf"
  else if !(inInt64 a.val && inInt64 b.val) then throw "OverflowError"
  else
    let w := wrap64 (Int.ofNat (powMod64 64 (a.val % two64).toNat e 1))
    let ovf := if a.val.natAbs ≤ 1 then false else if e ≥ 64 then true else a.val ^ e != w
    if strict && ovf then throw "ovf" else pure ⟨w, true⟩

end Cas
end Bingo
