import Model.Cas.Expr
/-!
# Optional modifications (`simplification_backend/optional_expression_modification.py`)

Module switches: `INSERT_SUBTRACTION = True`, `REPLACE_INTEGER_POWERS = True`,
`REPLACE_INTEGERS_WITH_CONSTANTS = False` (the third pass is therefore not modelled).
-/
namespace Bingo
namespace Cas
open Gen.OpDefs
open Expr

/-- the loop over `operands_w_subtraction` of `_insert_subtraction`: `(additive, subtractive)` -/
def splitSubtractive : List Expr → List Expr × List Expr
  | [] => ([], [])
  | operand :: rest =>
    let (add, sub) := splitSubtractive rest
    if optBeq operand.coefficient (some NEGATIVE_ONE) then
      match operand.termOf with
      | some t =>
        match t.args with
        | [single] => (add, single :: sub)
        | _ => (add, t :: sub)
      | none => (add, sub)   -- unreachable: a coefficient implies a term
    else (operand :: add, sub)

mutual
/-- mirrors `_insert_subtraction` -/
def insertSubtraction : Expr → Expr
  | e@(term _ _ _) => e
  | node op args =>
    let operands := insertSubtractionList args
    if op != ADDITION then node op operands
    else
      let (additive, subtractive) := splitSubtractive operands
      if subtractive.isEmpty then node ADDITION additive
      else if additive.isEmpty then node MULTIPLICATION [NEGATIVE_ONE, node ADDITION subtractive]
      else
        let subtractiveExp := match subtractive with
          | [s] => s
          | _ => node ADDITION subtractive
        let additiveExp := match additive with
          | [a] => a
          | _ => node ADDITION additive
        node SUBTRACTION [additiveExp, subtractiveExp]
def insertSubtractionList : List Expr → List Expr
  | [] => []
  | a :: as => insertSubtraction a :: insertSubtractionList as
end

/-- largest list `[x] * power` the model is willing to build (Python: `MemoryError` far beyond) -/
def maxReplicate : Nat := 20000000

mutual
/-- mirrors `_replace_integer_powers` -/
def replaceIntegerPowers : Expr → R Expr
  | e@(term _ _ _) => pure e
  | node op args => do
    let operands ← replaceIntegerPowersList args
    if op != POWER then pure (node op operands)
    else match operands with
      | [b, term o v _] =>
        if o != INTEGER || v ≤ 0 then pure (node op operands)
        else if !inInt64 v then throw "OverflowError"   -- `[x] * power`: cannot fit 'int' into an index-sized integer
        else if v.toNat > maxReplicate then throw "MemoryError"
        else pure (node MULTIPLICATION (List.replicate v.toNat b))
      | _ :: _ :: _ => pure (node op operands)
      | _ => throw "IndexError"
def replaceIntegerPowersList : List Expr → R (List Expr)
  | [] => pure []
  | a :: as => do
    let a' ← replaceIntegerPowers a
    pure (a' :: (← replaceIntegerPowersList as))
end

/-- mirrors `optional_modifications` -/
def optionalModifications (e : Expr) : R Expr := replaceIntegerPowers (insertSubtraction e)

end Cas
end Bingo
