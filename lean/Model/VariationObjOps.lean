import Model.AGraphState
/-!
# Object-level view of the variation operators (C04: ages, evaluated flag, parents intact)

`Model/Variation.lean` models what `AGraphMutation` / `AGraphCrossover` do to the command STACK.  This file
models what they do to the `AGraph` OBJECTS (`AG.St`: stack, fitness, `fit_set`, genetic age): the straight-line
bodies of `AGraphCrossover.__call__` and `AGraphMutation.__call__` are regenerated from the source as op lists
(`Gen.Variation.crossoverOps`, `mutationOps`) and interpreted here; the mutation kinds reach the child only
through stores, each of which the translator classifies (`StoreKind`).
-/
namespace Bingo
namespace VarObj
open AG

/-- statements of `AGraphCrossover.__call__` -/
inductive XOp where
  | copy (child parent : Nat)        -- `child_k = parent_j.copy()`
  | size (parent : Nat)              -- `ag_size = parent_j.command_array.shape[0]`
  | drawCut                          -- `cross_point = np.random.randint(1, ag_size - 1)`
  | tail (child parent : Nat)        -- `child_k.mutable_command_array[cross_point:] = parent_j.command_array[cross_point:]`
  | ageMax                           -- `child_age = max(parent_1.genetic_age, parent_2.genetic_age)`
  | setAge (child : Nat)             -- `child_k.genetic_age = child_age`
  | ret (a b : Nat)                  -- `return child_a, child_b`
  | unsupported (text : String)
  deriving Repr, DecidableEq

/-- statements of `AGraphMutation.__call__` -/
inductive MOp where
  | copy | drawKind | apply | ret
  | unsupported (text : String)
  deriving Repr, DecidableEq

/-- how a store inside mutation.py / crossover.py reaches its target (see translator/t_variation.py) -/
inductive StoreKind where
  | viaMutable | aliasMutable | «local» | selfAttr | age | other
  deriving Repr, DecidableEq

variable {V : Type}

/-- interpreter state of the crossover body -/
structure XSt (V : Type) where
  c1 : Option (St V) := none
  c2 : Option (St V) := none
  size : Option Nat := none
  cut : Option Nat := none
  age : Option Nat := none
  result : Option (St V × St V) := none

def XSt.child (s : XSt V) : Nat → Option (St V)
  | 1 => s.c1
  | 2 => s.c2
  | _ => none

def XSt.setChild (s : XSt V) (k : Nat) (c : St V) : Option (XSt V) :=
  match k with
  | 1 => some { s with c1 := some c }
  | 2 => some { s with c2 := some c }
  | _ => none

def pick (p1 p2 : St V) : Nat → Option (St V)
  | 1 => some p1
  | 2 => some p2
  | _ => none

/-- `child.mutable_command_array[cut:] = src.command_array[cut:]`: obtaining the view notifies, then the rows are
written (numpy raises `ValueError` if the two tails differ in length) -/
def tailStore (child src : St V) (cut : Nat) : Option (St V) :=
  if child.cmd.length = src.cmd.length then
    some { notify child with cmd := child.cmd.take cut ++ src.cmd.drop cut }
  else none

/-- one statement; `cutDraw` is the value `np.random.randint(1, size - 1)` returned (`1 ≤ cutDraw < size - 1`
is the RNG contract; numpy raises `ValueError` when the range is empty) -/
def xstep (p1 p2 : St V) (cutDraw : Nat) (s : XSt V) : XOp → Option (XSt V)
  | .copy k j => do let p ← pick p1 p2 j; s.setChild k (AG.copy p)
  | .size j => do let p ← pick p1 p2 j; pure { s with size := some p.cmd.length }
  | .drawCut => do
    let n ← s.size
    if 1 ≤ cutDraw ∧ cutDraw < n - 1 then pure { s with cut := some cutDraw } else none
  | .tail k j => do
    let c ← s.child k
    let p ← pick p1 p2 j
    let cut ← s.cut
    let c' ← tailStore c p cut
    s.setChild k c'
  | .ageMax => pure { s with age := some (max p1.age p2.age) }
  | .setAge k => do
    let c ← s.child k
    let a ← s.age
    s.setChild k { c with age := a }
  | .ret a b => do
    let ca ← s.child a
    let cb ← s.child b
    pure { s with result := some (ca, cb) }
  | .unsupported _ => none

def xrun (p1 p2 : St V) (cutDraw : Nat) : List XOp → XSt V → Option (XSt V)
  | [], s => some s
  | op :: rest, s => do
    if s.result.isSome then none        -- a statement after `return`
    let s' ← xstep p1 p2 cutDraw s op
    xrun p1 p2 cutDraw rest s'

/-- the two children `AGraphCrossover.__call__` returns for the body `ops` -/
def crossoverObj (ops : List XOp) (p1 p2 : St V) (cutDraw : Nat) : Option (St V × St V) :=
  (xrun p1 p2 cutDraw ops {}).bind (·.result)

/-- a mutation kind seen from the object: the list of row stores it performs on the child, each through the
mutable view (`editRow` notifies) -/
abbrev Writes := List (Nat × Cmd)

def applyWrites (c : St V) (w : Writes) : St V := w.foldl (fun s (p : Nat × Cmd) => editRow s p.1 p.2) c

/-- the child `AGraphMutation.__call__` returns for the body `ops`, when the drawn kind performs `w` -/
def mutationObj (ops : List MOp) (parent : St V) (w : Writes) : Option (St V) :=
  let rec go : List MOp → Option (St V) → Bool → Bool → Option (St V)
    | [], _, _, _ => none                                   -- fell off the end without `return`
    | .copy :: rest, _, kind, applied => go rest (some (AG.copy parent)) kind applied
    | .drawKind :: rest, c, _, applied => go rest c true applied
    | .apply :: rest, some c, true, false => go rest (some (applyWrites c w)) true true
    | .apply :: _, _, _, _ => none
    | .ret :: _, some c, _, true => some c
    | .ret :: _, _, _, _ => none
    | .unsupported _ :: _, _, _, _ => none
  go ops none false false

end VarObj
end Bingo
