import Driver.Util
import Driver.OpsHof
import Model.EvalEffect
/-! driver op for the evaluation phase with a fitness function that changes the individual (C19) -/
namespace Bingo
namespace Drv.OpsEvalEffect
open Drv EvalEffect

/-- the fixed fitness function of the harness (not idempotent, and it need not be):
new state `(7 g + 3 s + 1) % 11`, fitness `(g + 2 * new state) % 13`, NaN when `(g + s) % 9 = 4` -/
def fitF (g s : Nat) : Nat × Key :=
  let s' := (7 * g + 3 * s + 1) % 11
  (s', if (g + s) % 9 = 4 then none else some (Int.ofNat ((g + 2 * s') % 13)))

def costF (g s : Nat) : Nat := 1 + (g + s) % 3

/-- member `genome:state:fit:flag` (fit `-` = None, `nan`, or an integer key; flag 0|1) -/
def member? (w : String) : Option EInd :=
  match w.splitOn ":" with
  | [g, st, ft, fl] => do
    let gn ← g.toNat?
    let sn ← st.toNat?
    let fit ← if ft = "-" then some none else (OpsHof.key? ft).map some
    let flag ← if fl = "1" then some true else if fl = "0" then some false else none
    some ⟨gn, sn, fit, flag, 0⟩
  | _ => none

def showMember (i : EInd) : String :=
  s!"{i.genome}:{i.state}:{match i.fit with | none => "-" | some k => OpsHof.showKey k}:{if i.flag then 1 else 0}"

def handle : List String → Option String
  | ["evaleffect", red, pop] => do
    -- evaleffect ; redundant 0|1 ; members `genome:state:fit:flag`
    let r ← if red = "1" then some true else if red = "0" then some false else none
    let p ← (words pop).mapM member?
    let (out, n) := serialEvalE fitF costF r p
    let (out2, n2) := multiprocessEvalE fitF costF r p List.reverse
    some s!"ok {n} {n2} {if out == out2 then 1 else 0} ; {" ".intercalate (out.map showMember)}"
  | _ => none

end Drv.OpsEvalEffect
end Bingo
