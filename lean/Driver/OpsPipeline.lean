import Driver.Util
import Driver.OpsHof
import Model.Pipeline
import Model.Migration
import Model.Generated.Phases
/-! driver ops for migration (C11), the evaluation phase (C19/C17) and phase lists (C05) -/
namespace Bingo
namespace Drv.OpsPipeline
open Drv Pipeline

/-- individual `genome:flag` (fitness is not needed for migration) -/
def indiv? (s : String) : Option Indiv :=
  match s.splitOn ":" with
  | [g, f] => do let gn ← g.toNat?; some ⟨gn, none, f == "1", 0⟩
  | _ => none

def showIndiv (i : Indiv) : String := s!"{i.genome}:{if i.flag then 1 else 0}"

def phaseStr : Phase → String
  | .variation => "variation" | .evalPop => "evalPop" | .evalOff => "evalOff" | .diagnostics => "diagnostics"
  | .select .pop => "select(pop)" | .select .off => "select(off)" | .select .popPlusOff => "select(pop+off)"
  | .shuffle => "shuffle" | .resetPop => "resetPop" | .readPop => "readPop" | .unsupported w => s!"unsupported({w})"

def algos : List (String × List Phase) :=
  [("EvolutionaryAlgorithm", Gen.Phases.evolutionaryAlgorithm), ("MuPlusLambda", Gen.Phases.muPlusLambda),
   ("MuCommaLambda", Gen.Phases.muCommaLambda), ("GeneralizedCrowdingEA", Gen.Phases.generalizedCrowding)]

def handle : List String → Option String
  | "migrate" :: ord :: rest => do
    -- migrate ; order ; nShuffles ; shuffle… ; island… (islands: `genome:flag` words, `-` = empty)
    match rest with
    | ns :: more =>
      let order ← nats? ord; let n ← ns.toNat?
      let shuffles ← (more.take n).mapM nats?
      let islands ← (more.drop n).mapM fun s => if s = "-" then some [] else (words s).mapM indiv?
      match Migration.migrate order shuffles islands with
      | none => some "err"
      | some isl => some ("ok " ++ " ; ".intercalate (isl.map fun p => if p.isEmpty then "-" else " ".intercalate (p.map showIndiv)))
    | _ => none
  | ["roundhalf", ns] => do
    let n ← ns.toNat?
    some s!"ok {Migration.pyRoundFrac 1 2 n}"
  | ["evalphase", red, costmod, pop] => do
    -- population entries `genome:flag`; fitness = genome (as key); cost g = g % costmod + 1; returns flags and count
    let cm ← costmod.toNat?
    let p ← (words pop).mapM indiv?
    let f : Nat → Key := fun g => some (Int.ofNat g)
    let cost : Nat → Nat := fun g => if cm = 0 then 1 else g % cm + 1
    let (out, n) := serialEval f cost (red == "1") p
    let (out2, n2) := multiprocessEval f cost (red == "1") p List.reverse
    some s!"ok {n} {n2} {if out == out2 then 1 else 0} ; {" ".intercalate (out.map fun i => s!"{i.genome}:{if i.flag then 1 else 0}:{OpsHof.showKey (i.fit.getD none)}")}"
  | ["phases"] =>
    some ("ok " ++ " ; ".intercalate (algos.map fun (nm, ps) =>
      s!"{nm}: {", ".intercalate (ps.map phaseStr)} | fr={accepts .fr ps} ev={accepts .ev ps}"))
  | _ => none

end Drv.OpsPipeline
end Bingo
