import Driver.Util
import Driver.OpsHof
import Model.Pipeline
import Model.Migration
import Model.Generated.Phases
import Model.BestQuery
/-! driver ops for migration (C11), the evaluation phase (C19/C17) and phase lists (C05) -/
namespace Bingo
namespace Drv.OpsPipeline
open Drv Pipeline

/-- individual `genome:flag` (fitness is not needed for migration) -/
def indiv? (s : String) : Option Indiv :=
  match s.splitOn ":" with
  | [g, f] => do let gn ← g.toNat?; some ⟨gn, none, f == "1", 0⟩
  | _ => none

def showIndiv (i : Indiv) : String := s!"{i.genome}:{if i.flag then 1 else 0}"

def phaseStr : Phase → String
  | .variation => "variation" | .evalPop => "evalPop" | .evalOff => "evalOff" | .diagnostics => "diagnostics"
  | .select .pop => "select(pop)" | .select .off => "select(off)" | .select .popPlusOff => "select(pop+off)"
  | .shuffle => "shuffle" | .resetPop => "resetPop" | .readPop => "readPop" | .unsupported w => s!"unsupported({w})"

def algos : List (String × List Phase) :=
  [("EvolutionaryAlgorithm", Gen.Phases.evolutionaryAlgorithm), ("MuPlusLambda", Gen.Phases.muPlusLambda),
   ("MuCommaLambda", Gen.Phases.muCommaLambda), ("GeneralizedCrowdingEA", Gen.Phases.generalizedCrowding)]

def handle : List String → Option String
  | "migrate" :: ord :: rest => do
    -- migrate ; order ; nShuffles ; shuffle… ; island… (islands: `genome:flag` words, `-` = empty)
    match rest with
    | ns :: more =>
      let order ← nats? ord; let n ← ns.toNat?
      let shuffles ← (more.take n).mapM nats?
      let islands ← (more.drop n).mapM fun s => if s = "-" then some [] else (words s).mapM indiv?
      match Migration.migrate order shuffles islands with
      | none => some "err"
      | some isl => some ("ok " ++ " ; ".intercalate (isl.map fun p => if p.isEmpty then "-" else " ".intercalate (p.map showIndiv)))
    | _ => none
  | ["roundhalf", ns] => do
    let n ← ns.toNat?
    some s!"ok {Migration.pyRoundFrac 1 2 n}"
  | ["evalphase", red, costmod, pop] => do
    -- population entries `genome:flag`; fitness = genome (as key); cost g = g % costmod + 1; returns flags and count
    let cm ← costmod.toNat?
    let p ← (words pop).mapM indiv?
    let f : Nat → Key := fun g => some (Int.ofNat g)
    let cost : Nat → Nat := fun g => if cm = 0 then 1 else g % cm + 1
    let (out, n) := serialEval f cost (red == "1") p
    let (out2, n2) := multiprocessEval f cost (red == "1") p List.reverse
    some s!"ok {n} {n2} {if out == out2 then 1 else 0} ; {" ".intercalate (out.map fun i => s!"{i.genome}:{if i.flag then 1 else 0}:{OpsHof.showKey (i.fit.getD none)}")}"
  | ["bestquery", ages, red, nanmod, pop] => do
    -- bestquery ; age ; redundant ; nanmod ; members `genome:fit:flag` (fit `-` = None, `nan`, or an integer key)
    -- fitness f g = NaN if nanmod > 0 and g % nanmod = 3, else (37 g) % 23
    let age ← ages.toNat?; let nm ← nanmod.toNat?
    let f : Nat → Key := fun g => if nm > 0 && g % nm == 3 then none else some (Int.ofNat ((37 * g) % 23))
    let member? : String → Option Indiv := fun w =>
      match w.splitOn ":" with
      | [g, ft, fl] => do
        let gn ← g.toNat?
        let fit ← if ft = "-" then some none else (OpsHof.key? ft).map some
        some ⟨gn, fit, fl == "1", 0⟩
      | _ => none
    let p ← (words pop).mapM member?
    let showM : Indiv → String := fun i =>
      s!"{i.genome}:{match i.fit with | none => "-" | some k => OpsHof.showKey k}:{if i.flag then 1 else 0}"
    let (b, p') := BestQuery.islandBest f (fun _ => 1) (red == "1") age p
    some s!"ok {match b with | none => "raise" | some i => showM i} ; {" ".intercalate (p'.map showM)}"
  | ["phases"] =>
    some ("ok " ++ " ; ".intercalate (algos.map fun (nm, ps) =>
      s!"{nm}: {", ".intercalate (ps.map phaseStr)} | fr={accepts .fr ps} ev={accepts .ev ps}"))
  | _ => none

end Drv.OpsPipeline
end Bingo
