import Driver.Util
import Model.Strings
import Model.StringsTok
/-! driver ops for the equation string printer / parser (C16)

Text escaping: every piece of free text (equation strings, tokens, printed equations, error messages,
constant literals returned by the parser) travels as `x` followed by the lowercase hex of its UTF-8 bytes
(`x` alone = empty string), so spaces, `;`, newlines and control characters are harmless.

* `format ; <fmt> ; <stack "node p1 p2 …"> ; <constants: space-separated str(c) words>`
      → `ok x<hex string>` | `err <Class> x<hex message>`
* `tokenize ; x<hex text>`   → `ok x<tok> x<tok> …` | `err …`      (`eq_string_to_infix_tokens`)
* `postfix ; x<hex text>`    → `ok x<tok> …` | `err …`             (tokenize, then `infix_to_postfix`)
* `shunt ; x<tok> x<tok> …`  → `ok x<tok> …` | `err …`             (`infix_to_postfix` on a token list)
* `commands ; x<tok> …`      → `ok <stack> ; x<const> …` | `err …` (`postfix_to_command_array_and_constants`)
* `parse ; x<hex text>`      → `ok <stack> ; x<const> …` | `err …` (`eq_string_to_command_array_and_constants`)
* `pyfloat ; x<hex text>`    → `ok 1|0`   (does `float(text)` succeed)
* `resub ; neg|op ; x<hex text>` → `ok x<hex>`  (the two `re.sub` scanners)
* `consttok ; x<hex text>`  → `ok 1|0`   (`Str.constTokOK`: the hypothesis of the C16 round-trip theorems on constant strings)
`<Class>` is the Python exception class (`RuntimeError`, `IndexError`, `KeyError`, `ValueError`,
`OverflowError`) or `ModelDomain` (non-ASCII input, outside the model).
-/
namespace Bingo
namespace Drv.OpsStrings
open Drv

def hexDigit (n : Nat) : Char := if n < 10 then Char.ofNat (48 + n) else Char.ofNat (87 + n)

def hexVal (c : Char) : Option Nat :=
  if '0' ≤ c && c ≤ '9' then some (c.toNat - 48)
  else if 'a' ≤ c && c ≤ 'f' then some (c.toNat - 87)
  else none

def enc (s : String) : String :=
  String.ofList ('x' :: s.toUTF8.toList.flatMap fun b => [hexDigit (b.toNat / 16), hexDigit (b.toNat % 16)])

def decBytes : List Char → Option (List UInt8)
  | [] => some []
  | a :: b :: r => do
    let x ← hexVal a; let y ← hexVal b
    let t ← decBytes r
    pure (UInt8.ofNat (x * 16 + y) :: t)
  | _ => none

def dec (s : String) : Option String :=
  match s.toList with
  | 'x' :: r => do
    let bs ← decBytes r
    String.fromUTF8? (ByteArray.mk bs.toArray)
  | _ => none

def encList (xs : List String) : String := " ".intercalate (xs.map enc)
def decList (s : String) : Option (List String) := (words s).mapM dec

def showErr (e : String) : String :=
  match e.splitOn ": " with
  | cls :: rest => s!"err {cls} {enc (": ".intercalate rest)}"
  | [] => "err Unknown x"

def showRes {α : Type} (f : α → String) : Except String α → String
  | .ok a => s!"ok {f a}"
  | .error e => showErr e

def showParse (r : Stack × List String) : String := s!"{showStack r.1} ; {encList r.2}"

def handle : List String → Option String
  | ["format", fmt, st, cs] => do
    let s ← stack? st
    some (showRes enc (Str.format (Str.Fmt.ofString fmt) s (words cs)))
  | ["tokenize", t] =>
    match dec t with
    | some s => some (showRes encList (Str.tokenize s))
    | none => some "err ModelDomain x"
  | ["postfix", t] =>
    match dec t with
    | some s => some (showRes encList (Str.tokenize s >>= Str.infixToPostfix))
    | none => some "err ModelDomain x"
  | ["shunt", ts] => do
    let toks ← decList ts
    some (showRes encList (Str.infixToPostfix toks))
  | ["commands", ts] => do
    let toks ← decList ts
    some (showRes showParse (Str.postfixToCommands toks))
  | ["parse", t] =>
    match dec t with
    | some s => some (showRes showParse (Str.parse s))
    | none => some "err ModelDomain x"
  | ["pyfloat", t] => do
    let s ← dec t
    some (if Str.pyFloatOk s.toList then "ok 1" else "ok 0")
  | ["consttok", t] => do
    let s ← dec t
    some (if Str.constTokOK s then "ok 1" else "ok 0")
  | ["resub", which, t] => do
    let s ← dec t
    if which == "neg" then some s!"ok {enc (String.ofList (Str.negativeSub s.toList))}"
    else if which == "op" then some s!"ok {enc (String.ofList (Str.nonUnarySub s.toList))}"
    else if which == "negbase" then some s!"ok {enc (String.ofList (Str.negativeBaseSub s.toList))}"
    else none
  | _ => none

end Drv.OpsStrings
end Bingo
