import Driver.Util
import Driver.OpsHof
import Model.Selection
import Model.Generated.Consts
/-! driver ops for the selection operators (C08, C09) -/
namespace Bingo
namespace Drv.OpsSelection
open Drv Sel

/-- individual `key:age:id` -/
def indv? (s : String) : Option Indv :=
  match s.splitOn ":" with
  | [k, a, i] => do let key ← OpsHof.key? k; let age ← a.toNat?; let id ← i.toNat?; some ⟨key, age, id⟩
  | _ => none

def ids (l : List Indv) : String := showNats (l.map (·.id))

def handle : List String → Option String
  | "agefit" :: ss :: ts :: pops :: draws => do
    let sel ← ss.toNat?; let target ← ts.toNat?
    let pop ← (words pops).mapM indv?
    let ds ← draws.mapM nats?
    match ageFitness sel Gen.Consts.WORST_CASE_FACTOR pop target ds with
    | none => some "err"
    | some r => some s!"ok {r.kept} {r.rounds} ; {ids r.pop} ; {" | ".intercalate (r.removedLog.map showNats)}"
  | "tourn" :: pops :: samples => do
    let pop ← (words pops).mapM indv?
    let ss ← samples.mapM nats?
    match tournament pop ss with
    | none => some "err"
    | some w => some s!"ok {ids w}"
  | ["crowd", pops, ts, cl] => do
    let pop ← (words pops).mapM indv?; let target ← ts.toNat?
    let bits ← nats? cl
    match detCrowdingCall (fun i => bits.getD i 0 == 1) pop target with
    | none => some "err"
    | some out => some s!"ok {ids out}"
  | ["probcrowd", pops, ts, cl, coins] => do
    -- `coins`: outcome of `np.random.random() < prob` per call index 0 .. (2 per pair), `2` = the call drew no number
    let pop ← (words pops).mapM indv?; let target ← ts.toNat?
    let bits ← nats? cl
    let cs ← nats? coins
    match probCrowdingCall (fun k => cs.getD k 0 == 1) (fun i => bits.getD i 0 == 1) pop target with
    | none => some "err"
    | some out => some s!"ok {ids out}"
  | "probtourn" :: pops :: samples => do
    -- each sample: member indices, then `/`, then the index returned by searchsorted
    let pop ← (words pops).mapM indv?
    let ss ← samples.mapM fun s => match s.splitOn "/" with
      | [a, b] => do let m ← nats? a; let i ← b.trimAscii.toString.toNat?; some (m, i)
      | _ => none
    match probTournament pop ss with
    | none => some "err"
    | some w => some s!"ok {ids w}"
  | _ => none

end Drv.OpsSelection
end Bingo
