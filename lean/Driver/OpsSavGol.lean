import Driver.Util
import Model.SavGol
/-! driver ops for Savitzky–Golay weights and `_calculate_partials` (C20) -/
namespace Bingo
namespace Drv.OpsSavGol
open Drv SavGol

def showRat (r : Rat) : String := s!"{r.num}/{r.den}"

def rat? (s : String) : Option Rat :=
  match s.splitOn "/" with
  | [a] => (a.toInt?).map fun n => (n : Rat)
  | [a, b] => do let n ← a.toInt?; let d ← b.toNat?; if d = 0 then none else some ((n : Rat) / (d : Rat))
  | _ => none

/-- rows separated by `|`, entries by `,`; `nan` row = a row containing NaN -/
def rows? (s : String) : Option (List (Option (List Rat))) :=
  (s.splitOn "|").mapM fun row =>
    let row := row.trimAscii.toString
    if row = "nan" then some none
    else ((row.splitOn ",").mapM fun e => rat? e.trimAscii.toString).map some

def handle : List String → Option String
  | ["sgweights", ms, ns, ss] => do
    let m ← ms.toNat?; let n ← ns.toNat?; let s ← ss.toInt?
    let w := (List.range (2*m+1)).map fun a => (List.range (2*m+1)).map fun b => showRat (weight m n s a b)
    some ("ok " ++ " | ".intercalate (w.map (" ".intercalate ·)))
  | ["partials", ms, ns, ss, hs, ts, rs] => do
    let m ← ms.toNat?; let n ← ns.toNat?; let s ← ss.toInt?; let h ← hs.toNat?; let t ← ts.toNat?
    let rows ← rows? rs
    match calculatePartials m n s h t rows with
    | none => some "err"
    | some (inds, _, ds) =>
      some s!"ok {showNats inds} ; {" | ".intercalate (ds.map fun r => " ".intercalate (r.map showRat))}"
  | ["implicitrow", ds] => do
    let d ← (words ds).mapM rat?
    match implicitRow d with
    | none => some "nonfinite"
    | some r => some s!"ok {showRat r}"
  | ["implicitvec", rq, rs] => do
    -- `evaluate_fitness_vector` with `required_params` = `rq` (`none` or a number); rows separated by `|`
    let req : Option Nat ← if rq = "none" then some none else (rq.toNat?).map some
    let rows ← (rs.splitOn "|").mapM fun row => (words row).mapM rat?
    let show1 : Option Rat → String := fun o => match o with
      | none => "nonfinite"
      | some r => showRat r
    some ("ok " ++ " ".intercalate ((implicitVector req rows).map show1))
  | _ => none

end Drv.OpsSavGol
end Bingo
