import Driver.Util
import Model.ParArch
/-!
driver ops for the ParallelArchipelago protocol model (C12, parallel clause of C11)

* `partrace ; <R> <sync> <numSteps> ; <initial ages> ; <event> ; <event> …`
  replays the logged events of ONE `_non_blocking_execution(numSteps)` call through `ParArch.step`
  (the header has exactly three numbers: `comm_size`, `sync_frequency`, `num_steps`; the replay starts
  with rank 0 before the first blocking `recv(source=1, AGE_UPDATE)` of its collecting loop).
  Events (one per `;` field):
    `e r k`            `island.evolve` slice finished on rank r, age grew by k
    `t r`              scheduling point inside `island.evolve`
    `s r dest tag`     isend
    `p r src tag fnd`  iprobe; `src` = `*` for ANY_SOURCE; `fnd` = matched source or `-`
    `r r src tag`      recv
    `be r` / `bl r`    barrier enter / leave
  Result: `ok final=… ages=… table=… steps=n`, or
  `fail idx=i event=<…> expected=<…> state=<…>` (event i is not an enabled model action or its
  observable differs from the model's; `expected` is the model's next action of that rank), or
  `inv idx=i broken=<name> state=<…>` (an invariant fails after event i; idx = -1: initially), or
  `incomplete steps=n state=<…>` (trace ended before every rank returned), or
  `nonconforming idx=i …` (an `evolve` slice did not add exactly `sync` generations).
* `parpartner ; <order…>`: `_get_migration_partner` for every rank.
* `parexchange ; <order…> ; <island sizes…>`: all interleavings of the `sendrecv` exchange.
* `parexplore ; R sync numSteps depth [; ages]`: bounded exhaustive exploration of the model.
State rendering (`state=<…>`, `final=<…>`):
  `pc=<pc0>|<pcH 1>|… ages=a0,a1,… table=t0,t1,… mbox=src:age,… exitQ=… arrived=… goal=<target_total_age>`
  with `<pc0>` one of `collecting(k)`, `evolving`, `draining(q|-)`, `sendingExit(k)`, `atBarrier`,
  `inBarrier`, `finalDrain(q|-)`, `done`.
-/
namespace Bingo
namespace Drv.OpsParArch
open Drv ParArch

def showOptNat : Option Nat → String
  | none => "-"
  | some n => toString n

def showPc0 : Pc0 → String
  | .collecting k => s!"collecting({k})"
  | .evolving => "evolving"
  | .draining p => s!"draining({showOptNat p})"
  | .sendingExit k => s!"sendingExit({k})"
  | .atBarrier => "atBarrier"
  | .inBarrier => "inBarrier"
  | .finalDrain p => s!"finalDrain({showOptNat p})"
  | .done => "done"

def showPcH : PcH → String
  | .sendFirst => "sendFirst"
  | .checking => "checking"
  | .recvExit => "recvExit"
  | .evolving => "evolving"
  | .sending => "sending"
  | .atBarrier => "atBarrier"
  | .inBarrier => "inBarrier"
  | .done => "done"

def showAction : Action → String
  | .evolve r k => s!"e {r} {k}"
  | .tick r => s!"t {r}"
  | .isend r d t => s!"s {r} {d} {t}"
  | .iprobe r src t f => s!"p {r} {match src with | none => "*" | some q => toString q} {t} {showOptNat f}"
  | .recv r src t => s!"r {r} {src} {t}"
  | .barrierEnter r => s!"be {r}"
  | .barrierLeave r => s!"bl {r}"

def commas (xs : List String) : String := ",".intercalate xs

def showState (s : State) : String :=
  let pcs := showPc0 s.pc0 :: (s.pcH.drop 1).map showPcH
  s!"pc={"|".intercalate pcs} ages={commas (s.ages.map toString)} table={commas (s.table.map showOptNat)} " ++
  s!"mbox={commas (s.mbox.map fun m => s!"{m.1}:{m.2}")} exitQ={commas (s.exitQ.map toString)} " ++
  s!"arrived={commas (s.arrived.map fun b => if b then "1" else "0")} goal={s.goal}"

def optNat? (none_ : String) (s : String) : Option (Option Nat) :=
  if s = none_ then some none else s.toNat?.map some

def action? (s : String) : Option Action :=
  match words s with
  | ["e", r, k] => do some (.evolve (← r.toNat?) (← k.toNat?))
  | ["t", r] => do some (.tick (← r.toNat?))
  | ["s", r, d, t] => do some (.isend (← r.toNat?) (← d.toNat?) (← t.toNat?))
  | ["p", r, src, t, f] => do some (.iprobe (← r.toNat?) (← optNat? "*" src) (← t.toNat?) (← optNat? "-" f))
  | ["r", r, src, t] => do some (.recv (← r.toNat?) (← src.toNat?) (← t.toNat?))
  | ["be", r] => do some (.barrierEnter (← r.toNat?))
  | ["bl", r] => do some (.barrierLeave (← r.toNat?))
  | _ => none

/-- replay; `idx` counts events from 0 -/
def replay (s : State) : List String → Nat → String
  | [], idx =>
    if isFinal s then
      s!"ok final={showState s} steps={idx}"
    else s!"incomplete steps={idx} state={showState s}"
  | ev :: rest, idx =>
    match action? ev with
    | none => s!"bad-event idx={idx} event={ev}"
    | some a =>
      match step s a with
      | none =>
        let exp := match nextAction s a.rank with
          | some e => showAction e
          | none => "none(blocked-or-done)"
        s!"fail idx={idx} event={ev} expected={exp} state={showState s}"
      | some s' =>
        let conforming := match a with
          | .evolve _ k => k == s.sync
          | _ => true
        if !conforming then s!"nonconforming idx={idx} event={ev} sync={s.sync}"
        else match firstBroken s' with
          | some name => s!"inv idx={idx} broken={name} state={showState s'}"
          | none => replay s' rest (idx + 1)

def showPartners (order : List Nat) : String :=
  commas ((List.range order.length).map fun r => showOptNat (partner order r))

def handle : List String → Option String
  | "partrace" :: hdr :: ages :: events => do
    let h ← nats? hdr
    let a ← nats? ages
    let s0 ← match h with
      | [R, sync, numSteps] => some (initial R sync numSteps a)
      | _ => none
    if a.length != s0.R then some "bad-ages"
    else match firstBroken s0 with
      | some name => some s!"inv idx=-1 broken={name} state={showState s0}"
      | none => some (replay s0 events 0)
  | ["parpartner", order] => do
    let o ← nats? order
    some s!"partners={showPartners o} symmetric={if partnerSymmetric o then 1 else 0} perm={if isPermutation o then 1 else 0}"
  | ["parexchange", order, sizes] => do
    let o ← nats? order
    let sz ← nats? sizes
    -- individuals get globally unique ids: island r holds 1000 r … 1000 r + size - 1
    let pops := (List.range o.length).map fun r => (List.range (sz.getD r 0)).map (· + 1000 * r)
    let (n, d, f, bc, bs) := xexplore o pops
    some s!"states={n} deadlocks={d} finals={f} nonconserving={bc} sizechanged={bs}"
  | "parexplore" :: hdr :: rest => do
    let h ← nats? hdr
    let ages ← match rest with
      | [] => some []
      | [a] => nats? a
      | _ => none
    match h with
    | [R, sync, numSteps, depth] =>
      let st := explore R sync numSteps depth ages
      some (s!"states={st.states} transitions={st.transitions} deadlocks={st.deadlocks} finals={st.finals} " ++
        s!"unclean={st.uncleanFinals} badages={st.badAges} unsound={st.unsound} inconsistent={st.inconsistent} " ++
        s!"frontier={st.frontier}")
    | _ => none
  | _ => none

end Drv.OpsParArch
end Bingo
