import Driver.Util
import Model.Variation
/-! driver ops for the random generator, the five mutation kinds and crossover (C04)

* `generate ; <D> <nLoad> <size> ; <ops…> ; <draws…>`
* `mutate ; <D> <nLoad> ; <ops…> ; <parent stack> ; <draws…>`            (kind drawn from the PMF)
* `mutatekind ; <kind 0..4> ; <D> <nLoad> ; <ops…> ; <parent stack> ; <draws…>`
* `crossover ; <parent1> ; <parent2> ; <draws…>`

answer: `ok <stack> [; <stack2>] ; used=<draws consumed>` | `bad-draw` | `out-of-draws` | `err <kind>` -/
namespace Bingo
namespace Drv.OpsVariation
open Drv Var

def showRes {α : Type} (total : Nat) (sh : α → String) : Res (α × List Nat) → String
  | .ok (a, rest) => s!"ok {sh a} ; used={total - rest.length}"
  | .badDraw => "bad-draw"
  | .outOfDraws => "out-of-draws"
  | .pyError k => s!"err {k.name}"

def handle : List String → Option String
  | ["generate", cfgS, opsS, drawsS] => do
    let [d, nLoad, size] ← nats? cfgS | none
    let ops ← ints? opsS
    let draws ← nats? drawsS
    some (showRes draws.length showStack ((generate ⟨d, nLoad, ops⟩ size).run draws))
  | ["mutate", cfgS, opsS, parentS, drawsS] => do
    let [d, nLoad] ← nats? cfgS | none
    let ops ← ints? opsS
    let parent ← stack? parentS
    let draws ← nats? drawsS
    some (showRes draws.length showStack ((mutate ⟨d, nLoad, ops⟩ parent).run draws))
  | ["mutatekind", kindS, cfgS, opsS, parentS, drawsS] => do
    let kind ← kindS.toNat?
    let [d, nLoad] ← nats? cfgS | none
    let ops ← ints? opsS
    let parent ← stack? parentS
    let draws ← nats? drawsS
    some (showRes draws.length showStack ((mutateKind ⟨d, nLoad, ops⟩ kind parent).run draws))
  | ["crossover", p1S, p2S, drawsS] => do
    let p1 ← stack? p1S
    let p2 ← stack? p2S
    let draws ← nats? drawsS
    some (showRes draws.length (fun (c : Stack × Stack) => s!"{showStack c.1} ; {showStack c.2}")
      ((crossover p1 p2).run draws))
  | _ => none

end Drv.OpsVariation
end Bingo
