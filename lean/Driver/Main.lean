import Driver.OpsEval
import Driver.OpsReduce
import Driver.OpsHof
import Driver.OpsConverge
import Driver.OpsCas
import Driver.OpsMetrics
import Driver.OpsSavGol
import Driver.OpsPipeline
import Driver.OpsSelection
import Driver.OpsLocalOpt
import Driver.OpsVariation
import Driver.OpsStrings
import Driver.OpsParArch
import Driver.OpsVarPhase
import Driver.OpsEvalEffect
/-! `bvdriver`: one operation per stdin line, one canonical result line per operation -/
namespace Bingo

def handlers : List (List String → Option String) :=
  [Drv.OpsEval.handle, Drv.OpsReduce.handle, Drv.OpsHof.handle, Drv.OpsConverge.handle, Drv.OpsCas.handle, Drv.OpsMetrics.handle, Drv.OpsSavGol.handle, Drv.OpsPipeline.handle, Drv.OpsSelection.handle, Drv.OpsLocalOpt.handle, Drv.OpsVariation.handle, Drv.OpsStrings.handle, Drv.OpsParArch.handle, Drv.OpsVarPhase.handle, Drv.OpsEvalEffect.handle]

def dispatch (line : String) : String :=
  let parts := Drv.splitSemi line
  match parts with
  | [] => "bad-op"
  | hd :: rest =>
    let toks := Drv.words hd ++ rest
    match handlers.findSome? (· toks) with
    | some out => out
    | none => "bad-op"

partial def loop (h : IO.FS.Stream) (out : IO.FS.Stream) : IO Unit := do
  let line ← h.getLine
  if line.isEmpty then return ()
  out.putStrLn (dispatch (line.trimAscii.toString))
  loop h out

end Bingo
open Bingo
def main : IO Unit := do
  let out ← IO.getStdout
  loop (← IO.getStdin) out
  out.flush

