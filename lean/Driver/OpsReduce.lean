import Driver.Util
import Model.Reduce
import Model.Renumber
import Model.WF
/-! driver ops for `get_utilized_commands`, `reduce_stack`, renumbering, well-formedness (C03, C04, C18) -/
namespace Bingo
namespace Drv.OpsReduce
open Drv

def handle : List String → Option String
  | ["util", st] => do
    let s ← stack? st
    match Reduce.utilized s with
    | some u => some s!"ok {showBools u}"
    | none => some "err"
  | ["reduce", st] => do
    let s ← stack? st
    match Reduce.reduce s with
    | some r => some s!"ok {showStack r}"
    | none => some "err"
  | ["renumber", st] => do
    let s ← stack? st
    some s!"ok {Renumber.numConsts s} ; {showStack (Renumber.renumber s)}"
  | ["wfgenome", d, ops, st] => do
    let s ← stack? st; let D ← d.toNat?; let o ← ints? ops
    some (if WF.wf D none (some o) s then "ok 1" else "ok 0")
  | ["wfeval", d, l, st] => do
    let s ← stack? st; let D ← d.toNat?; let L ← l.toNat?
    some (if WF.wf D (some L) none s then "ok 1" else "ok 0")
  | _ => none

end Drv.OpsReduce
end Bingo
