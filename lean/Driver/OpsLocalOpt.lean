import Driver.Util
import Driver.OpsHof
import Model.LocalOpt
import Model.AGraphState
import Model.Reduce
import Model.Cas.Simplify
/-! driver ops for local optimization (C06) and the AGraph state machine (C18) -/
namespace Bingo
namespace Drv.OpsLocalOpt
open Drv LocalOpt

/-- `derive` of the real object: reduce_stack or the CAS -/
def deriveReal (useSimp : Bool) (s : Stack) : Stack :=
  if useSimp then
    match Cas.simplify s with
    | .ok r => r
    | .error _ => []
  else (Reduce.reduce s).getD []

def showSt (s : AG.St Int) : String :=
  s!"{showStack s.simp} ; {showInts s.consts} ; {if s.needsOpt then 1 else 0} {if s.modified then 1 else 0} {if s.fitSet then 1 else 0}"

/-- ops: `c <stack>` set command array, `e i node p1 p2` edit row, `p v…` set constants, `o` observe, `f k` set fitness -/
def agOp? (w : List String) : Option (AG.Op Int) :=
  match w with
  | "c" :: rest => (stack? (" ".intercalate rest)).map AG.Op.setCmd
  | ["e", i, n, a, b] => do
    let i ← i.toNat?; let n ← n.toInt?; let a ← a.toInt?; let b ← b.toInt?
    some (.editRow i ⟨n, a, b⟩)
  | "p" :: vs => (vs.mapM String.toInt?).map AG.Op.setConsts
  | ["o"] => some .observe
  | ["f", k] => (OpsHof.key? k).map AG.Op.setFitness
  | ["z"] => some .resetFlag
  | _ => none

def handle : List String → Option String
  | ["localopt", st, nt, nj, fl] => do
    match words st with
    | [no, np, cl] =>
      let needsOpt := no == "1"; let numParams ← np.toNat?; let clen ← cl.toNat?
      let ntrials ← nt.toNat?; let njac ← nj.toNat?; let flen ← fl.toNat?
      let e : Eqn Int := ⟨List.replicate clen 0, needsOpt, numParams⟩
      let o : Oracle Int := ⟨List.replicate ntrials [], njac, List.replicate flen 1⟩
      let r := call (fun c => some (Int.ofNat c.length)) o e
      some s!"ok {if r.2.1.needsOpt then 1 else 0} {r.2.1.consts.length} {r.2.2} {if r.2.1.consts == e.consts then 1 else 0}"
    | _ => none
  | ["refit", ks] => do
    -- scripted `EquationRegressor.fit`: attempt `i` (0 = first fit) leaves the constants `[i]` and has fitness `ks[i]`
    let keys ← (words ks).mapM OpsHof.key?
    match keys with
    | [] => none
    | _ :: rest =>
      let base : List Int → Key := fun c => match c with
        | [i] => (keys[i.toNat]?).getD none
        | _ => none
      let mk : Nat → Oracle Int := fun i => ⟨[], 0, [Int.ofNat i]⟩
      let retries := (List.range rest.length).map fun j => mk (j + 1)
      let r := refit base (mk 0) retries ⟨[-1], true, 1⟩
      some s!"ok {OpsHof.showKey r.1} ; {showInts r.2.consts} ; {if r.2.needsOpt then 1 else 0}"
  | "agraph" :: us :: ops => do
    -- state after every op, with the real simplifiers; constants are integers, default constant = 1
    let useSimp := us == "1"
    let os ← ops.mapM fun o => agOp? (words o)
    let states := os.foldl (fun (acc : AG.St Int × List String) op =>
      let s' := AG.step deriveReal 1 acc.1 op
      (s', showSt s' :: acc.2)) (AG.init useSimp, [])
    some ("ok " ++ " | ".intercalate states.2.reverse)
  | _ => none

end Drv.OpsLocalOpt
end Bingo
