import Driver.Util
import Model.EvalPy
/-! driver ops for the evaluation backend (C01, C02) -/
namespace Bingo
namespace Drv.OpsEval
open Drv

def isZeroF (f : Float) : Bool := f == 0.0

/-- constants: alternating kind tag (0 = python float, 1 = numpy scalar) and bits -/
def kconsts? (s : String) : Option (List (KVal Float)) := do
  let xs ← nats? s
  let rec go : List Nat → Option (List (KVal Float))
    | [] => some []
    | k :: b :: rest => (go rest).map ((if k = 0 then Kind.py else Kind.np, floatOfBits b) :: ·)
    | _ => none
  go xs

def kindStr : Kind → String
  | .py => "py" | .np => "np" | .col => "col"

def errStr : PyErr → String
  | .zerodiv => "err zerodiv" | .other => "err other"

def handle : List String → Option String
  | ["eval", st, cs, xs] => do
    let s ← stack? st; let c ← kconsts? cs; let x ← floats? xs
    match EvalPy.evaluate isZeroF s x c with
    | .ok v => some s!"ok {kindStr v.1} {bitsOfFloat v.2}"
    | .error e => some (errStr e)
  | ["grad", w, st, cs, xs] => do
    let s ← stack? st; let c ← kconsts? cs; let x ← floats? xs
    match EvalPy.evalWithDeriv isZeroF s x c (w == "x") with
    | .ok (v, d) => some s!"ok {kindStr v.1} {bitsOfFloat v.2} ; {showFloats d}"
    | .error e => some (errStr e)
  | ["fwdtrace", st, cs, xs, pv] => do
    -- row i recomputed by the model from the implementation's values of rows < i
    let s ← stack? st; let c ← floats? cs; let x ← floats? xs; let py ← floats? pv
    let rows := (List.range s.length).map fun i =>
      match s[i]? with
      | none => none
      | some cmd => Eval.fwdRow s.length x c (py.take i) cmd
    match rows.mapM id with
    | some vs => some s!"ok {showFloats vs}"
    | none => some "err other"
  | ["revstep", st, is, fws, rs] => do
    -- one non-accumulating iteration of `_reverse_eval` from the implementation's state
    let s ← stack? st; let i ← is.toNat?; let fw ← floats? fws; let r ← floats? rs
    let cmd ← s[i]?
    match Eval.revRule cmd.node with
    | none => some "err other"
    | some stmts =>
      match Eval.applyStmts s.length fw i cmd stmts r with
      | some r' => some s!"ok {showFloats r'}"
      | none => some "err other"
  | _ => none

end Drv.OpsEval

end Bingo
