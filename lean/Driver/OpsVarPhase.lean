import Driver.Util
import Driver.OpsHof
import Model.VariationPhase
/-! driver op for the variation phase (C05): `VarAnd` / `VarOr`, optionally wrapped in `AddRandomIndividuals`, over
multiple-value chromosomes with `SinglePointCrossover` / `SinglePointMutation` -/
namespace Bingo
namespace Drv.OpsVarPhase
open Drv Pipeline VarPhase

/-- value lists as genome numbers: base-16 digits behind a leading 1 (so the length is kept) -/
def enc16 (vs : List Nat) : Nat := vs.foldl (fun a v => a * 16 + v % 16) 1
def dec16 (g : Nat) : List Nat :=
  ((Nat.toDigits 16 g).map fun c => if c.isDigit then c.toNat - 48 else c.toNat - 87).drop 1

def vals? (s : String) : Option (List Nat) := (s.splitOn ".").filter (· ≠ "") |>.mapM String.toNat?
def showVals (vs : List Nat) : String := ".".intercalate (vs.map toString)

/-- individual `v.v.v:fit:flag:age`, fit `-` = None -/
def indiv? (s : String) : Option Indiv :=
  match s.splitOn ":" with
  | [v, f, fl, a] => do
    let vs ← vals? v
    let fit ← if f = "-" then some none else (OpsHof.key? f).map some
    let age ← a.toNat?
    some ⟨enc16 vs, fit, fl == "1", age⟩
  | _ => none

def showIndiv (i : Indiv) : String :=
  let f := match i.fit with | none => "-" | some k => OpsHof.showKey k
  s!"{showVals (dec16 i.genome)}:{f}:{if i.flag then 1 else 0}:{i.age}"

def boolNat? (s : String) : Option (Bool × Nat) :=
  match s.splitOn "," with
  | [b, r] => do let rn ← r.toNat?; some (b == "1", rn)
  | _ => none

def orDraw? (s : String) : Option OrDraw :=
  match s.splitOn "," with
  | [c, p1, p2, op] => do
    let ch ← match c with
      | "m" => some Choice.mutation | "c" => some Choice.crossover | "r" => some Choice.replication | _ => none
    some ⟨ch, ← p1.toNat?, ← p2.toNat?, ← op.toNat?⟩
  | _ => none

def handle : List String → Option String
  | ["varphase", kind, ls, ns, pop, d1, d2, nr, gens] => do
    -- varphase ; and|or ; L ; n ; pop ; draws ; draws ; numRand ; generated value lists
    let l ← ls.toNat?; let n ← ns.toNat?
    let numRand ← if nr = "-" then some 0 else nr.toNat?
    let p ← (words pop).mapM indiv?
    let g ← (words gens).mapM vals?
    let crossover := svCrossoverI enc16 dec16
    let mutation := svMutationI (fun r => r / l) enc16 dec16
    let variation ← match kind with
      | "and" => do
        let cx ← (words d1).mapM boolNat?; let mu ← (words d2).mapM boolNat?
        some (fun (pp : List Indiv) (k : Nat) => varAnd crossover mutation pp k cx mu)
      | "or" => do
        let ds ← (words d1).mapM orDraw?
        some (fun (pp : List Indiv) (k : Nat) => varOr crossover mutation pp k ds)
      | _ => none
    let out := if nr = "-" then variation p n
      else addRandom variation (fun e => newChromosome e) numRand p n (g.map enc16)
    some ("ok " ++ " ".intercalate (out.map showIndiv))
  | _ => none

end Drv.OpsVarPhase
end Bingo
