import Driver.Util
import Model.Renumber
import Model.Cas.Simplify
/-! driver ops for the computer-algebra simplifier -/
namespace Bingo
namespace Drv.OpsCas
open Drv

def handle : List String → Option String
  | ["simplify", st] => do
    let s ← stack? st
    match Cas.simplify s with
    | .ok r => some s!"ok {showStack r}"
    | .error e => some s!"err {e}"
  | ["simplifyr", st] => do
    let s ← stack? st
    match Cas.simplifyChecked s with
    | (.ok r, ovf) => some s!"ok {showStack (Renumber.renumber r)} ; ovf={if ovf then 1 else 0}"
    | (.error e, ovf) => some s!"err {e} ; ovf={if ovf then 1 else 0}"
  | ["casexpr", st] => do
    let s ← stack? st
    match Cas.autoSimplified s with
    | .ok e => some s!"ok {e.render}"
    | .error e => some s!"err {e}"
  | _ => none

end Drv.OpsCas
end Bingo
