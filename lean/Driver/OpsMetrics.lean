import Driver.Util
import Model.Generated.Metrics
/-! driver op for the metric / metric-derivative functions (C07) -/
namespace Bingo
namespace Drv.OpsMetrics
open Drv

def piF : Float := 3.141592653589793

def byName : String → Option VFun
  | "mae" => some Gen.Metrics.mae | "mse" => some Gen.Metrics.mse | "rmse" => some Gen.Metrics.rmse
  | "nmll" => some Gen.Metrics.nmll | "dmae" => some Gen.Metrics.dmae | "dmse" => some Gen.Metrics.dmse
  | "drmse" => some Gen.Metrics.drmse | "dnmll" => some Gen.Metrics.dnmll | _ => none

def handle : List String → Option String
  | ["metric", name, l, vs, ps] => do
    let f ← byName name; let L ← l.toNat?; let v ← floats? vs; let p ← floats? ps
    match f.eval v p L piF with
    | some x => some s!"ok {bitsOfFloat x}"
    | none => some "err"
  | _ => none

end Drv.OpsMetrics
end Bingo
