import Driver.Util
import Driver.OpsHof
import Model.Converge
import Model.Checkpoint
/-! driver ops for `evolve_until_convergence` (C14) and checkpoint rotation (C13) -/
namespace Bingo
namespace Drv.OpsConverge
open Drv Converge Checkpoint

def optNat? (s : String) : Option (Option Nat) := if s = "none" then some none else (s.toNat?).map some
def optInt? (s : String) : Option (Option Int) := if s = "none" then some none else (s.toInt?).map some

/-- obs: `best evals elapsed est gens` -/
def obs? (s : String) : Option Obs :=
  match words s with
  | [b, e, el, es, g] => do
    let best ← OpsHof.key? b; let evals ← e.toNat?; let elapsed ← el.toInt?
    let est ← optInt? es; let gens ← g.toNat?
    some ⟨best, evals, elapsed, est, gens⟩
  | _ => none

def showFName : FName → String
  | .ckpt a => s!"c{a}"
  | .temp a => s!"t{a}"

def showFS (fs : FS) : String :=
  let items := fs.map fun p => s!"{showFName p.1}{if p.2 then "+" else "-"}"
  " ".intercalate (items.toArray.qsort (· < ·)).toList

def showOp : FOp → String
  | .openW f => s!"open:{showFName f}"
  | .finish f => s!"finish:{showFName f}"
  | .rename a b => s!"rename:{showFName a}:{showFName b}"
  | .remove f => s!"remove:{showFName f}"

def fname? (s : String) : Option FName :=
  if s.startsWith "c" then ((s.drop 1).toString.toNat?).map FName.ckpt
  else if s.startsWith "t" then ((s.drop 1).toString.toNat?).map FName.temp else none

def handle : List String → Option String
  | "converge" :: cfgs :: sts :: obss => do
    -- cfg: maxGen minGen freq thr stag maxEvals maxTime ; state: age improv best|None
    match words cfgs, words sts with
    | [mg, mn, fr, th, sg, me, mt], [ag, im, be] =>
      let maxGen ← mg.toNat?; let minGen ← mn.toNat?; let freq ← fr.toNat?
      let thr ← OpsHof.key? th; let stag ← optNat? sg; let maxEvals ← optNat? me; let maxTime ← optInt? mt
      let age ← ag.toNat?; let improv ← im.toNat?
      let best : Option Key ← if be = "None" then some none else (OpsHof.key? be).map some
      let obsl ← obss.mapM obs?
      let obsf : Nat → Obs := fun k => obsl.getD k (obsl.getLast?.getD default)
      match run ⟨maxGen, minGen, freq, thr, stag, maxEvals, maxTime⟩ obsf age improv best with
      | .result status ngen fitness success rounds st =>
        some s!"ok {status} {ngen} {OpsHof.showKey fitness} {if success then 1 else 0} ; {showNats rounds} ; {st.age} {st.improv}"
      | .unsupported w => some s!"unsupported {w}"
      | .outOfFuel => some "outoffuel"
    | _, _ => none
  | ["ckptops", num, ages] => do
    let n ← optNat? num; let a ← nats? ages
    some ("ok " ++ " ".intercalate ((callOps n [] a).map showOp))
  | ["ckptrun", num, ages, fs0] => do
    -- disk state after every prefix of the call's steps
    let n ← optNat? num; let a ← nats? ages
    let init ← (words fs0).mapM fun w =>
      let complete := w.endsWith "+"
      (fname? (w.dropEnd 1).toString).map (·, complete)
    let ops := callOps n [] a
    let states := (List.range (ops.length + 1)).map fun k =>
      match fsRun init (ops.take k) with
      | some fs => showFS fs
      | none => "err"
    some ("ok " ++ " | ".intercalate states)
  | _ => none

end Drv.OpsConverge
end Bingo
