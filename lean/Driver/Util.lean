import Model.Stack
/-! parsing / printing helpers for the line protocol -/
namespace Bingo
namespace Drv

def splitSemi (s : String) : List String := (s.splitOn ";").map (·.trimAscii.toString)
def words (s : String) : List String := (s.splitOn " ").filter (· ≠ "")

def ints? (s : String) : Option (List Int) := (words s).mapM String.toInt?
def nats? (s : String) : Option (List Nat) := (words s).mapM String.toNat?

def floatOfBits (n : Nat) : Float := Float.ofBits (UInt64.ofNat n)
def bitsOfFloat (f : Float) : Nat := f.toBits.toNat
def floats? (s : String) : Option (List Float) := (nats? s).map (·.map floatOfBits)

def stack? (s : String) : Option Stack := do
  let xs ← ints? s
  let rec go : List Int → Option Stack
    | [] => some []
    | a :: b :: c :: rest => (go rest).map (⟨a, b, c⟩ :: ·)
    | _ => none
  go xs

def showStack (s : Stack) : String :=
  " ".intercalate (s.map fun c => s!"{c.node} {c.p1} {c.p2}")

def showFloats (xs : List Float) : String := " ".intercalate (xs.map fun f => toString (bitsOfFloat f))
def showNats (xs : List Nat) : String := " ".intercalate (xs.map toString)
def showInts (xs : List Int) : String := " ".intercalate (xs.map toString)
def showBools (xs : List Bool) : String := " ".intercalate (xs.map fun b => if b then "1" else "0")

end Drv

end Bingo
