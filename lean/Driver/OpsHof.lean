import Driver.Util
import Model.HallOfFame
import Model.BestScan
/-! driver ops for hall of fame / Pareto front histories (C10) and best-individual scans (C15, C09) -/
namespace Bingo
namespace Drv.OpsHof
open Drv HOF

def key? (s : String) : Option Key :=
  if s = "nan" then some none else (s.toInt?).map some

def showKey : Key → String
  | none => "nan"
  | some k => toString k

/-- item `key:key2:id` -/
def item? (s : String) : Option Item :=
  match s.splitOn ":" with
  | [a, b, c] => do
    let k ← key? a; let k2 ← key? b; let i ← c.toNat?
    some ⟨k, k2, i⟩
  | _ => none

def showItems (h : List Item) : String :=
  " ".intercalate (h.map fun it => s!"{showKey it.key}:{showKey it.key2}:{it.id}")

/-- similarity modes of the harness: 0 none, 1 same id modulo 3 -/
def simOf (mode : Nat) : Option (Item → Item → Bool) :=
  if mode = 1 then some (fun a b => a.id % 3 == b.id % 3) else none

/-- ops: `u item…` update, `i item` insert, `r idx` remove, `c` clear -/
def hofOp (maxSize : Nat) (sim : Option (Item → Item → Bool)) (pareto : Bool) (h : List Item) (op : String) :
    Option (List Item) :=
  match words op with
  | "u" :: its => do
    let pop ← its.mapM item?
    if pareto then some (pfUpdate sim h pop) else update maxSize sim h pop
  | ["i", it] => do
    let x ← item? it
    some (insert h x)
  | ["r", idx] => do
    let i ← idx.toInt?
    remove h i
  | ["c"] => some []
  | _ => none

def runHist (maxSize : Nat) (sim : Option (Item → Item → Bool)) (pareto : Bool) :
    List Item → List String → List String → String
  | _, [], acc => " | ".intercalate acc.reverse
  | h, op :: rest, acc =>
    match hofOp maxSize sim pareto h op with
    | none => " | ".intercalate (("err" :: acc).reverse)
    | some h' => runHist maxSize sim pareto h' rest (showItems h' :: acc)

def keyed? (s : String) : Option (List (Key × Nat)) :=
  (words s).mapM fun w =>
    match w.splitOn ":" with
    | [a, b] => do let k ← key? a; let i ← b.toNat?; some (k, i)
    | _ => none

def handle : List String → Option String
  | "hofhist" :: m :: sm :: ops => do
    let maxSize ← m.toNat?; let mode ← sm.toNat?
    some (runHist maxSize (simOf mode) false [] ops [])
  | "pfhist" :: sm :: ops => do
    let mode ← sm.toNat?
    some (runHist 0 (simOf mode) true [] ops [])
  | ["iscan", pop] => do
    let p ← keyed? pop
    match BestScan.islandScan p with
    | none => some "err"
    | some b => some s!"ok {showKey b.1}:{b.2}"
  | "archbest" :: islands => do
    let isl ← islands.mapM keyed?
    match BestScan.islandScan (isl.filterMap BestScan.islandScan) with
    | none => some "err"
    | some b => some s!"ok {showKey b.1}:{b.2}"
  | _ => none

end Drv.OpsHof
end Bingo
